#!/bin/sh
# tools/try_seed.sh <seed dir name, e.g. C20-a> [property to check (default: from the name)] [tier]
# Runs the check against a scratch worktree of /repo with the seeded patch applied
# (FLIPDOT_REPO), with its own build and output directories, so /repo, /verif/evidence and
# /verif/replays are not touched.  Prints the verdict lines.
S=$1; P=${2:-$(echo $S | cut -d- -f1)}; T=${3:-quick}
WT=/tmp/seedwt/$S
cd /verif || exit 2
git -C /repo worktree remove --force $WT >/dev/null 2>&1
git -C /repo worktree add --detach $WT HEAD >/dev/null 2>&1 || exit 2
( cd $WT && git apply /verif/seeded/$S/patch.diff ) || { echo "seed=$S patch does not apply"; git -C /repo worktree remove --force $WT; exit 2; }
cp /repo/Cargo.lock $WT/Cargo.lock
mkdir -p /tmp/vout-seed /tmp/trylogs
FLIPDOT_REPO=$WT VERIF_BUILD=${VERIF_BUILD_SEED:-/tmp/vbuild-seed} VERIF_OUT=/tmp/vout-seed/$S ./check $P --tier $T > /tmp/trylogs/$S.$P.$T.log 2>&1; rc=$?
git -C /repo worktree remove --force $WT
grep -E "^VIOLATION|^KNOWN|^INCONCLUSIVE|^OK|^property=|^  harness" /tmp/trylogs/$S.$P.$T.log | cut -c1-300 | head -12
echo "seed=$S property=$P tier=$T exit=$rc"
