#!/usr/bin/env python3
"""Fold the verdict lines printed by tools/try_seed.sh (given log files) into seeded/*/meta.json
and seeded/RESULTS.md."""
import glob, json, os, re, sys

res = {}
for f in sys.argv[1:]:
    cur = []
    for line in open(f, errors="replace"):
        line = line.strip()
        m = re.match(r"seed=(\S+) property=(\S+) tier=(\S+) exit=(\d+)", line)
        if m:
            seed, prop, tier, rc = m.group(1), m.group(2), m.group(3), int(m.group(4))
            viol = [re.sub(r".*replays/", "", l.split("replay=")[1]).replace(".json", "") for l in cur if l.startswith("VIOLATION")]
            inc = [l for l in cur if l.startswith("INCONCLUSIVE")]
            res.setdefault(seed, {})[(prop, tier)] = {"exit": rc, "violations": viol, "inconclusive": [i[:200] for i in inc]}
            cur = []
        elif line.startswith(("VIOLATION", "INCONCLUSIVE", "OK", "KNOWN")):
            cur.append(line)
rows = []
for d in sorted(glob.glob("/verif/seeded/*/meta.json")):
    seed = os.path.basename(os.path.dirname(d))
    meta = json.load(open(d))
    r = res.get(seed)
    if r:
        det = []
        for (prop, tier), v in sorted(r.items()):
            det.append({"check": prop, "tier": tier, "exit": v["exit"], "detected": v["exit"] == 1, "by": v["violations"][:4], "inconclusive": v["inconclusive"][:2]})
        old = [x for x in (meta.get("detected_by") or []) if (x["check"], x["tier"]) not in {(y["check"], y["tier"]) for y in det}]
        meta["detected_by"] = old + det
        json.dump(meta, open(d, "w"), indent=1)
    for x in meta.get("detected_by") or []:
        rows.append((seed, x["check"], x["tier"], "DETECTED" if x["detected"] else ("inconclusive" if x["exit"] == 2 else "missed"), ", ".join(x["by"][:3])))
    if not meta.get("detected_by"):
        rows.append((seed, meta["property"], "-", "not run yet", ""))
with open("/verif/seeded/RESULTS.md", "w") as f:
    f.write("# Seeded changes vs checks\n\nEach row: a confirmed seeded change (seeded/<id>/), the check run against a scratch worktree with the patch applied (tools/try_seed.sh), and the outcome. 'DETECTED' = exit 1 with replay-confirmed VIOLATION lines.\n\n| seed | check | tier | outcome | violating harnesses / queries |\n|---|---|---|---|---|\n")
    for r in rows:
        f.write("| %s | %s | %s | %s | %s |\n" % r)
print(open("/verif/seeded/RESULTS.md").read())
