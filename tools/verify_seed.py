#!/usr/bin/env python3
"""Confirm a seeded change produced by a sub-agent, independently, in a scratch worktree:
demo passes on the clean tree; with the patch the whole suite still passes and the demo fails.
Then store it as /verif/seeded/<id>-<v>/ (patch.diff, demo.rs, notes.md, meta.json)."""
import json, os, shutil, subprocess, sys

def sh(cmd, cwd=None, env=None):
    p = subprocess.run(cmd, cwd=cwd, env=env, shell=isinstance(cmd, str), stdout=subprocess.PIPE, stderr=subprocess.STDOUT, text=True)
    return p.returncode, p.stdout

def main():
    pid, v = sys.argv[1], sys.argv[2]
    src = "/tmp/seedout/%s/%s" % (pid, v)
    wt = "/tmp/vs/%s%s" % (pid, v)
    env = dict(os.environ, CARGO_NET_OFFLINE="true", CARGO_TARGET_DIR="/tmp/vs-target")
    sh("git -C /repo worktree remove --force %s" % wt)
    rc, out = sh("git -C /repo worktree add --detach %s HEAD" % wt)
    assert rc == 0, out
    try:
        demo = "demo_%s_%s" % (pid, v)
        shutil.copy(src + "/demo.rs", "%s/tests/%s.rs" % (wt, demo))
        rc0, out0 = sh("cargo test --offline --test %s 2>&1 | tail -15" % demo, cwd=wt, env=env)
        clean_pass = "test result: ok" in out0 and "FAILED" not in out0
        rc, out = sh("git apply --3way %s/patch.diff || git apply %s/patch.diff" % (src, src), cwd=wt)
        applied = rc == 0
        os.remove("%s/tests/%s.rs" % (wt, demo))
        rc1, out1 = sh("cargo test --workspace --offline --no-fail-fast 2>&1 | grep -E '^test result|FAILED|^error' ", cwd=wt, env=env)
        suite_pass = applied and "FAILED" not in out1 and "error" not in out1.replace('error_tests','') and "test result: ok" in out1
        shutil.copy(src + "/demo.rs", "%s/tests/%s.rs" % (wt, demo))
        rc2, out2 = sh("cargo test --offline --test %s 2>&1 | tail -25" % demo, cwd=wt, env=env)
        demo_fails = "FAILED" in out2 or "panicked" in out2
        os.remove("%s/tests/%s.rs" % (wt, demo))
        rc, patch = sh("git diff HEAD", cwd=wt)
        ok = clean_pass and applied and suite_pass and demo_fails
        print("%s-%s: demo_on_clean_passes=%s patch_applies=%s suite_passes_with_patch=%s demo_fails_with_patch=%s => %s" % (pid, v, clean_pass, applied, suite_pass, demo_fails, "CONFIRMED" if ok else "REJECTED"))
        if not ok:
            print(out0[-800:], out1[-800:], out2[-800:])
            return 1
        dst = "/verif/seeded/%s-%s" % (pid, v)
        os.makedirs(dst, exist_ok=True)
        open(dst + "/patch.diff", "w").write(patch)
        shutil.copy(src + "/demo.rs", dst + "/demo.rs")
        if os.path.exists(src + "/notes.md"):
            shutil.copy(src + "/notes.md", dst + "/notes.md")
        head = sh("git -C /repo rev-parse --short HEAD")[1].strip()
        meta = {
            "property": pid,
            "variant": v,
            "origin": "independent sub-agent given only the property text and a scratch worktree",
            "needs_to_manifest": open(src + "/notes.md").read()[:1500] if os.path.exists(src + "/notes.md") else "",
            "confirmed_by": "tools/verify_seed.py in scratch worktree at repo commit " + head,
            "ran": [
                "cargo test --offline --test %s (clean tree): pass" % demo,
                "git apply patch.diff; cargo test --workspace --offline --no-fail-fast: all pass",
                "cargo test --offline --test %s (patched): FAILS" % demo,
            ],
            "demo_failure_excerpt": out2[-1200:],
            "detected_by": None,
        }
        json.dump(meta, open(dst + "/meta.json", "w"), indent=1)
        return 0
    finally:
        sh("git -C /repo worktree remove --force %s" % wt)

if __name__ == "__main__":
    sys.exit(main())
