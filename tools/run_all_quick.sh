#!/bin/sh
# Run every claimed check's quick tier sequentially against /repo and report verdicts and times.
cd /verif || exit 2
for p in C01 C02 C03 C04 C05 C06 C07 C08 C09 C10 C11 C12 C13 C14 C15 C16 C17 C18 C19 C20; do
  s=$(date +%s)
  ./check $p --tier quick > /tmp/quick_$p.log 2>&1; rc=$?
  e=$(date +%s)
  echo "$p exit=$rc $((e-s))s $(grep -E '^OK|^INCONCLUSIVE|^VIOLATION' /tmp/quick_$p.log | head -2 | cut -c1-150 | tr '\n' ' ')"
done
