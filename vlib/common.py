"""Shared paths and small helpers for the flipdot solver-based checks."""
import fcntl
import hashlib
import json
import os
import subprocess
import sys
import time

VERIF = os.path.dirname(os.path.dirname(os.path.abspath(__file__)))
REPO = os.environ.get("FLIPDOT_REPO", "/repo")
BUILD = os.environ.get("VERIF_BUILD", os.path.join(VERIF, "build"))
# where evidence/ and replays/ are written (overridden when trying seeded changes on scratch trees)
OUT = os.environ.get("VERIF_OUT", VERIF)
KANI_VERSION = "0.68.0"
NCPU = os.cpu_count() or 4


def log(*a):
    print(*a, file=sys.stderr, flush=True)


def env_offline(extra=None):
    e = dict(os.environ)
    e["CARGO_NET_OFFLINE"] = "true"
    e.pop("RUSTFLAGS", None)
    e.pop("CARGO_TARGET_DIR", None)
    e.pop("RUSTUP_TOOLCHAIN", None)
    if extra:
        e.update(extra)
    return e


class Lock:
    """flock-based lock so concurrent checks can share one cargo target dir."""

    def __init__(self, name):
        os.makedirs(BUILD, exist_ok=True)
        self.path = os.path.join(BUILD, "." + name + ".lock")
        self.fd = None

    def __enter__(self):
        self.fd = open(self.path, "w")
        fcntl.flock(self.fd, fcntl.LOCK_EX)
        return self

    def __exit__(self, *a):
        fcntl.flock(self.fd, fcntl.LOCK_UN)
        self.fd.close()


def sha(s):
    return hashlib.sha256(s.encode() if isinstance(s, str) else s).hexdigest()


def run(cmd, cwd=None, env=None, timeout=None, capture=True):
    t0 = time.time()
    p = subprocess.run(
        cmd,
        cwd=cwd,
        env=env,
        timeout=timeout,
        stdout=subprocess.PIPE if capture else None,
        stderr=subprocess.STDOUT if capture else None,
        text=True,
        errors="replace",
    )
    return p.returncode, (p.stdout or ""), time.time() - t0


def read(path):
    with open(path) as f:
        return f.read()


def write(path, s):
    os.makedirs(os.path.dirname(path), exist_ok=True)
    tmp = path + ".tmp%d" % os.getpid()
    with open(tmp, "w") as f:
        f.write(s)
    os.replace(tmp, path)


def write_if_changed(path, s):
    try:
        if read(path) == s:
            return False
    except OSError:
        pass
    write(path, s)
    return True


def repo_fingerprint():
    """Hash of the source files of the tree under test (reported in evidence)."""
    h = hashlib.sha256()
    for root in ("src", "libs"):
        for d, _, fs in sorted(os.walk(os.path.join(REPO, root))):
            if "/target" in d:
                continue
            for f in sorted(fs):
                if f.endswith(".rs") or f == "Cargo.toml":
                    p = os.path.join(d, f)
                    h.update(p.encode())
                    h.update(open(p, "rb").read())
    return h.hexdigest()[:16]
