"""Registry: per property, the harnesses (solver queries), bounds and what lies outside them."""
from .kani import H


class Prop:
    def __init__(self, pid, functions, bounds, outside, stubs, assumptions, filters, harnesses, generators=(), obligations=(), technique_extra="", needs_regex=False):
        self.needs_regex = needs_regex
        self.pid = pid
        self.functions = functions
        self.bounds = bounds
        self.outside = outside
        self.stubs = stubs
        self.assumptions = assumptions
        self.filters = filters
        self.harnesses = harnesses
        self.generators = list(generators)
        self.obligations = list(obligations)
        self.technique_extra = technique_extra


COMMON_ASSUME = [
    "Kani models the dev profile (overflow checks on), single-threaded, panic=abort; allocation never fails",
    "trusted base: rustc/kani-compiler 0.68, CBMC 6.11, CaDiCaL; Kani's models of std",
    "bounded: results hold for the listed sizes only; unwinding assertions are on, so no loop is silently truncated",
]

PROPS = {}


def memcmp(n):
    return ("memcmp", n)


# ------------------------------------------------------------------------------------------- C04
def _c04():
    hs = []
    quick = {0, 1, 2, 3, 16}
    for owned, ls in (("borrowed", [0, 1, 2, 3, 4, 15, 16, 17, 64, 255]), ("owned", [0, 1, 2, 3, 16, 255])):
        for l in ls:
            q = l in quick and (owned == "borrowed" or l in (0, 1, 16))
            hs.append(
                H(
                    "c04::%s_l%d" % (owned, l),
                    "frame with %d %s data bytes: address (all 65536), type (all 256) and every data byte symbolic; Message::from then Frame::from" % (l, owned),
                    tier="quick" if q else "thorough",
                    unwind=max(l + 2, 15),
                    unwindset=[memcmp(l + 2)],
                    params={"data_len": l, "data": owned},
                    timeout=1500,
                )
            )
    return Prop(
        "C04",
        ["<Message as From<Frame>>::from", "<Frame as From<Message>>::from", "Frame::new", "Data::try_new", "Frame::{address,message_type,data}"],
        "data length classes {0,1,2,3,16} quick, plus {4,15,17,64,255} thorough; per class every address, type and data byte value; borrowed and owned data",
        "data lengths not listed (the conversion only distinguishes 0, 1 and >=2)",
        [],
        COMMON_ASSUME + ["oracle: refmodel::ref_kind, transcribed from the protocol table in the property statement"],
        ["c04::"],
        hs,
    )


PROPS["C04"] = _c04()


# ------------------------------------------------------------------------------------------- C05
def _c05():
    hs = [
        H("c05::plain_roundtrip", "every non-data message kind, all 16-bit fields, all 13 states, all 6 operations: Message -> Frame -> Message", unwind=15, params={"kinds": 8}),
        H("c05::injective_plain", "two symbolic different plain messages never map to the same frame", unwind=15, unwindset=[memcmp(3)], params={"pairs": "all"}),
    ]
    for l in [0, 1, 2, 15, 16, 17, 255]:
        hs.append(
            H(
                "c05::send_data_l%d" % l,
                "data chunk with %d borrowed bytes (all symbolic) and symbolic offset: Message -> Frame -> Message" % l,
                tier="quick" if l in (0, 1, 2, 16) else "thorough",
                unwind=l + 2,
                unwindset=[memcmp(l + 2)],
                params={"data_len": l},
                timeout=1500,
            )
        )
    for l in [0, 1, 16]:
        hs.append(H("c05::send_data_owned_l%d" % l, "data chunk with %d owned bytes" % l, tier="quick" if l < 2 else "thorough", unwind=l + 2, unwindset=[memcmp(l + 2)], params={"data_len": l, "data": "owned"}))
    for a, b in [(0, 0), (0, 1), (1, 1), (2, 2), (3, 3)]:
        hs.append(
            H(
                "c05::injective_data_%d_%d" % (a, b),
                "data chunk of %d bytes vs any plain message or a data chunk of %d bytes: frames differ" % (a, b),
                tier="quick" if a < 2 else "thorough",
                unwind=15,
                unwindset=[memcmp(5)],
                params={"len1": a, "len2": b},
            )
        )
    return Prop(
        "C05",
        ["<Frame as From<Message>>::from", "<Message as From<Frame>>::from", "Data::try_new"],
        "all non-Unknown kinds; all 16-bit addresses/offsets/counts; data chunk lengths {0,1,2,16} quick + {15,17,255} thorough with symbolic bytes; injectivity for chunks of <=3 bytes and all plain messages; the wire (hex) leg is covered by C01's round trip",
        "data chunk lengths not listed; injectivity between chunks longer than 3 bytes",
        [],
        COMMON_ASSUME,
        ["c05::"],
        hs,
    )


PROPS["C05"] = _c05()
