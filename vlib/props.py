"""Registry: per property, the harnesses (solver queries), bounds and what lies outside them."""
from .kani import H
from .gentypes import gen_types
from . import genpages, genframes, pagesmt
from .regexshim import obligation_regex_validation


class Prop:
    def __init__(self, pid, functions, bounds, outside, stubs, assumptions, filters, harnesses, generators=(), obligations=(), technique_extra="", needs_regex=False):
        self.needs_regex = needs_regex
        self.pid = pid
        self.functions = functions
        self.bounds = bounds
        self.outside = outside
        self.stubs = stubs
        self.assumptions = assumptions
        self.filters = filters
        self.harnesses = harnesses
        self.generators = list(generators)
        self.obligations = list(obligations)
        self.technique_extra = technique_extra


COMMON_ASSUME = [
    "Kani models the dev profile (overflow checks on), single-threaded, panic=abort; allocation never fails",
    "trusted base: rustc/kani-compiler 0.68, CBMC 6.11, CaDiCaL; Kani's models of std",
    "bounded: results hold for the listed sizes only; unwinding assertions are on, so no loop is silently truncated",
]

PROPS = {}


def memcmp(n):
    return ("memcmp", n)


# ------------------------------------------------------------------------------------------- C04
def _c04():
    hs = []
    quick = {0, 1, 2, 3, 16}
    for owned, ls in (("borrowed", [0, 1, 2, 3, 4, 15, 16, 17, 64, 255]), ("owned", [0, 1, 2, 3, 16, 255])):
        for l in ls:
            q = l in quick and (owned == "borrowed" or l in (0, 1, 16))
            hs.append(
                H(
                    "c04::%s_l%d" % (owned, l),
                    "frame with %d %s data bytes: address (all 65536), type (all 256) and every data byte symbolic; Message::from then Frame::from" % (l, owned),
                    tier="quick" if q else "thorough",
                    unwind=max(l + 2, 15),
                    unwindset=[memcmp(l + 2)],
                    params={"data_len": l, "data": owned},
                    timeout=1500,
                )
            )
    return Prop(
        "C04",
        ["<Message as From<Frame>>::from", "<Frame as From<Message>>::from", "Frame::new", "Data::try_new", "Frame::{address,message_type,data}"],
        "data length classes {0,1,2,3,16} quick, plus {4,15,17,64,255} thorough; per class every address, type and data byte value; borrowed and owned data",
        "data lengths not listed (the conversion only distinguishes 0, 1 and >=2)",
        [],
        COMMON_ASSUME + ["oracle: refmodel::ref_kind, transcribed from the protocol table in the property statement"],
        ["c04::"],
        hs,
    )


PROPS["C04"] = _c04()


# ------------------------------------------------------------------------------------------- C05
def _c05():
    hs = [
        H("c05::plain_roundtrip", "every non-data message kind, all 16-bit fields, all 13 states, all 6 operations: Message -> Frame -> Message", unwind=15, params={"kinds": 8}),
        H("c05::injective_plain", "two symbolic different plain messages never map to the same frame", unwind=15, unwindset=[memcmp(3)], params={"pairs": "all"}),
    ]
    for l in [0, 1, 2, 15, 16, 17, 255]:
        hs.append(
            H(
                "c05::send_data_l%d" % l,
                "data chunk with %d borrowed bytes (all symbolic) and symbolic offset: Message -> Frame -> Message" % l,
                tier="quick" if l in (0, 1, 2, 16) else "thorough",
                unwind=l + 2,
                unwindset=[memcmp(l + 2)],
                params={"data_len": l},
                timeout=1500,
            )
        )
    for l in [0, 1, 16]:
        hs.append(H("c05::send_data_owned_l%d" % l, "data chunk with %d owned bytes" % l, tier="quick" if l < 2 else "thorough", unwind=l + 2, unwindset=[memcmp(l + 2)], params={"data_len": l, "data": "owned"}))
    for a, b in [(0, 0), (0, 1), (1, 1), (2, 2), (3, 3)]:
        hs.append(
            H(
                "c05::injective_data_%d_%d" % (a, b),
                "data chunk of %d bytes vs any plain message or a data chunk of %d bytes: frames differ" % (a, b),
                tier="quick" if a < 2 else "thorough",
                unwind=15,
                unwindset=[memcmp(5)],
                params={"len1": a, "len2": b},
            )
        )
    return Prop(
        "C05",
        ["<Frame as From<Message>>::from", "<Message as From<Frame>>::from", "Data::try_new"],
        "all non-Unknown kinds; all 16-bit addresses/offsets/counts; data chunk lengths {0,1,2,16} quick + {15,17,255} thorough with symbolic bytes; injectivity for chunks of <=3 bytes and all plain messages; the wire (hex) leg is covered by C01's round trip",
        "data chunk lengths not listed; injectivity between chunks longer than 3 bytes",
        [],
        COMMON_ASSUME,
        ["c05::"],
        hs,
    )


PROPS["C05"] = _c05()


# ------------------------------------------------------------------------------------------- C12
VS_SHAPES = {
    "s0": (0, 0, 0, 0, 0),
    "s1": (12, 8, 16, 0, 0),
    "s2": (12, 8, 16, 1, 0),
    "s3": (12, 8, 16, 0, 16),
    "s4": (12, 8, 16, 1, 16),
    "s5": (12, 8, 16, 0, 15),
    "s6": (12, 8, 16, 0, 17),
    "s7": (30, 7, 48, 0, 32),
    "s8": (30, 7, 48, 1, 48),
    "s9": (300, 7, 304, 0, 0),
    "s10": (0, 7, 0, 0, 16),
    "s11": (12, 8, 16, 0, 1),
    "s12": (12, 8, 16, 0, 32),
}


def vs_desc(sh):
    w, h, pgb, np, pend = VS_SHAPES[sh]
    return "virtual sign in ANY state satisfying the representation invariant with sizes: configured %dx%d, %d stored page(s) of %d bytes, %d pending bytes; address, flip style, protocol state (13), chunk counter (u16), recorded type and all bytes symbolic" % (w, h, np, pgb, pend)


def vs_unwind(sh, l=0):
    return 18


def vs_rules(sh, l=0):
    w, h, pgb, np, pend = VS_SHAPES[sh]
    return [("state_index|op_index|index_of", 15), ("bytes_eq", max(pgb, pend, l, 16) + 2), memcmp(max(pgb, pend + l, 16) + 2)]


VS_DATA = [
    ("s0", [0, 1, 15, 16, 17, 255]),
    ("s1", [0, 16, 17]),
    ("s2", [16]),
    ("s3", [0, 1, 16]),
    ("s4", [16]),
    ("s5", [1, 16]),
    ("s6", [16]),
    ("s7", [16, 15]),
    ("s8", [16]),
    ("s9", [16]),
    ("s10", [16]),
]
VS_QUICK_PLAIN = {"s0", "s1", "s2", "s3", "s5", "s6", "s7"}
VS_QUICK_DATA = {("s0", 0), ("s0", 16), ("s0", 17), ("s1", 16), ("s3", 16), ("s3", 0), ("s5", 1), ("s5", 16), ("s6", 16), ("s7", 16), ("s9", 16)}


def _c12():
    hs = [H("c12::base_new", "VirtualSign::new for any address and flip style satisfies the invariant", unwind=4)]
    for sh in VS_SHAPES:
        hs.append(
            H(
                "c12::%s_plain" % sh,
                vs_desc(sh) + "; then ANY non-data message (all kinds, own or foreign address, all operations, any chunk count)",
                tier="quick" if sh in VS_QUICK_PLAIN else "thorough",
                unwind=vs_unwind(sh),
                unwindset=vs_rules(sh),
                params={"shape": VS_SHAPES[sh], "message": "plain"},
            )
        )
    for sh, ls in VS_DATA:
        for l in ls:
            hs.append(
                H(
                    "c12::%s_d%d" % (sh, l),
                    vs_desc(sh) + "; then a data chunk of %d symbolic bytes at a symbolic offset (16-byte chunks include every configuration block)" % l,
                    tier="quick" if (sh, l) in VS_QUICK_DATA else "thorough",
                    unwind=vs_unwind(sh, l),
                    unwindset=vs_rules(sh, l),
                    params={"shape": VS_SHAPES[sh], "message": "SendData", "data_len": l},
                )
            )
    kinds = ["DataChunksSent", "Hello", "QueryState", "ReportState", "RequestOperation", "AckOperation", "PixelsComplete", "Goodbye"]
    for k, kn in enumerate(kinds):
        hs.append(H("c12::bus2_k%d" % k, "bus of two signs in invariant states (blank sizes; 12x8 mid-transfer with a 15-byte buffer), symbolic addresses; one %s message with symbolic parameters" % kn, tier="quick" if k in (0, 4) else "thorough", unwind=6, unwindset=vs_rules("s5"), params={"signs": 2, "kind": kn}))
    hs.append(H("c12::bus2_data16", "same bus; one 16-byte data chunk, symbolic bytes and offset", unwind=18, unwindset=vs_rules("s5", 16), params={"signs": 2, "kind": "SendData"}))
    hs.append(H("c12::ksteps3", "3 symbolic messages (plain or 16-byte chunk) from VirtualSign::new", unwind=5, unwindset=vs_rules("s3"), params={"k": 3}, timeout=1800, mem_gb=20))
    return Prop(
        "C12",
        ["VirtualSign::process_message and every handler it dispatches to", "VirtualSign::new", "VirtualSignBus::process_message", "Page::from_bytes", "SignType::from_bytes"],
        "one inductive step from every invariant state in 13 size shapes (sizes 0x0, 12x8, 30x7, 300x7, 0x7; 0-1 stored pages; pending 0/1/15/16/17/32/48 bytes) x every plain message and data chunks of 0/1/15/16/17/255 bytes with symbolic contents and offset; base case; bus of 2 signs; k<=3 steps from new()",
        "size shapes not listed (more than one stored page, other dimensions); a logger being installed (log macros are inactive)",
        [],
        COMMON_ASSUME + ["one-step pre-states are constrained only by vsign::inv_holds, whose base case and preservation are checked in the same run", "hook: VirtualSign::verif_from_parts / verif_parts (cfg(kani))"],
        ["c12::"],
        hs,
    )


PROPS["C12"] = _c12()


# ------------------------------------------------------------------------------------------- C13
def _c13():
    hs = []
    for sh in VS_SHAPES:
        hs.append(
            H(
                "c13::%s_plain" % sh,
                vs_desc(sh) + "; then ANY non-data message; reply, state, every field, pages, buffer and type compared with refmodel::ref_sign_step",
                tier="quick" if sh in VS_QUICK_PLAIN else "thorough",
                unwind=vs_unwind(sh),
                unwindset=vs_rules(sh) + [("snap|old_pages_kept", max(VS_SHAPES[sh][2], VS_SHAPES[sh][4]) + 2)],
                params={"shape": VS_SHAPES[sh], "message": "plain"},
            )
        )
    for sh, ls in VS_DATA:
        for l in ls:
            hs.append(
                H(
                    "c13::%s_d%d" % (sh, l),
                    vs_desc(sh) + "; then a data chunk of %d symbolic bytes at a symbolic offset; compared with refmodel::ref_sign_step" % l,
                    tier="quick" if (sh, l) in VS_QUICK_DATA else "thorough",
                    unwind=vs_unwind(sh, l),
                    unwindset=vs_rules(sh, l) + [("snap|old_pages_kept", max(VS_SHAPES[sh][2], VS_SHAPES[sh][4]) + 2)],
                    params={"shape": VS_SHAPES[sh], "message": "SendData", "data_len": l},
                )
            )
    return Prop(
        "C13",
        ["VirtualSign::process_message and every handler", "VirtualSign::{state,sign_type,pages,address}", "Page::from_bytes", "SignType::from_bytes"],
        "one step from every invariant state in 13 size shapes x every plain message / data chunks of 0/1/15/16/17/255 symbolic bytes, compared field-for-field (reply, state, dimensions, counter mod 2^16, buffer bytes, stored page bytes, type) with the reference machine; histories of any length follow with C12's induction",
        "size shapes not listed (more than one stored page before the step, other dimensions)",
        [],
        COMMON_ASSUME
        + [
            "oracle: refmodel::ref_sign_step, the documented sign-side machine (legal states per operation, count comparison mod 2^16, pages = complete buffers of the configured size)",
            "pre-states constrained only by vsign::inv_holds (proved inductive by C12 in its own run)",
            "buffer and counter of a sign parked in ReadyToReset are not compared (they cannot influence anything observable)",
            "hook: VirtualSign::verif_from_parts / verif_parts (cfg(kani))",
        ],
        ["c13::"],
        hs,
    )


PROPS["C13"] = _c13()


# ------------------------------------------------------------------------------------------- C14
KINDS = ["DataChunksSent", "Hello", "QueryState", "ReportState", "RequestOperation", "AckOperation", "PixelsComplete", "Goodbye"]


def _c14():
    hs = []
    pairs = {
        "pa": ("12x8 with a complete 16-byte page buffered + 12x8 with a 15-byte short buffer", [0, 1, 2, 3, 4, 5, 6, 7], [16, 1], 18),
        "pb": ("blank sizes + 12x8 with one stored page", [0, 1, 2, 4, 6, 7], [16], 18),
        "pc": ("30x7 with 32 of 48 bytes buffered + 30x7 with one stored page and a full 48-byte buffer", [0, 4], [16], 50),
    }
    quick = {"pa_k0", "pa_k1", "pa_k4", "pa_k7", "pa_d16", "pb_k0", "pb_k1", "pb_k2", "pb_k4", "pb_d16"}
    for p, (desc, kinds, datas, sz) in pairs.items():
        rules = [("state_index|op_index|index_of", 15), ("bytes_eq|old_pages_kept|snap", sz + 18), memcmp(sz + 18)]
        for k in kinds:
            n = "%s_k%d" % (p, k)
            hs.append(
                H(
                    "c14::" + n,
                    "bus of 2 signs, each in ANY invariant state (%s), symbolic pairwise distinct addresses and flip styles; one %s message with symbolic parameters; compared with each sign processing it alone" % (desc, KINDS[k]),
                    tier="quick" if n in quick else "thorough",
                    unwind=6,
                    unwindset=rules,
                    params={"signs": 2, "pair": p, "kind": KINDS[k]},
                    timeout=1200,
                    mem_gb=16,
                    mem_expect=8,
                )
            )
        for l in datas:
            n = "%s_d%d" % (p, l)
            hs.append(
                H(
                    "c14::" + n,
                    "bus of 2 signs (%s); one unaddressed data chunk of %d symbolic bytes at a symbolic offset" % (desc, l),
                    tier="quick" if n in quick else "thorough",
                    unwind=18,
                    unwindset=rules,
                    params={"signs": 2, "pair": p, "kind": "SendData", "data_len": l},
                    timeout=1200,
                    mem_gb=16,
                    mem_expect=8,
                )
            )
    return Prop(
        "C14",
        ["VirtualSignBus::process_message", "VirtualSignBus::new", "VirtualSignBus::sign", "VirtualSign::process_message and handlers", "VirtualSign: Clone"],
        "2 signs per bus, addresses symbolic and distinct, three pairs of size shapes (two signs mid-transfer included), every message kind (one harness per kind, parameters symbolic), data chunks of 1 and 16 symbolic bytes; one step from arbitrary invariant states covers all interleavings",
        "buses of more than 2 signs (the bus loop is uniform in the number of signs: stated, not proven); size shapes not listed",
        [],
        COMMON_ASSUME
        + [
            "pre-states constrained only by vsign::inv_holds (C12)",
            "'receiving state' = ConfigInProgress or PixelsInProgress; 'observable' = address, state, type, pages",
            "bus, clones and replies are mem::forget-ed at the end of the harness (drop glue exhausts CBMC memory and is not part of the property)",
        ],
        ["c14::"],
        hs,
    )


PROPS["C14"] = _c14()


# ------------------------------------------------------------------------------------------- C19
def _c19():
    hs = [
        H("c19::wrong_length_rejected", "40-byte symbolic buffer, symbolic length 0..=40 except 16: SignType::from_bytes", unwind=3, params={"lengths": "0..=40 \\ {16}"}),
        H("c19::sixteen_bytes_total", "all 16 bytes of a configuration block symbolic (2^128 blocks): acceptance iff family/id of a supported type, decoded type, re-encoding, error payload", unwind=20, unwindset=[memcmp(20)], params={"bytes": 16}),
        H("c19::every_type_consistent", "every supported type (list re-read from sign_type.rs): 16-byte block, decodes to itself, height/width/bits-per-column (Max3000) and height/width/A1*B1+A2*B2 (Horizon) agree with dimensions()", unwind=20, unwindset=[memcmp(20)], params={"types": "all"}),
        H("c19::ids_distinct", "no two supported types share (family, id)", unwind=20, params={"pairs": "all"}),
        H("c19::virtual_sign_derives_dimensions", "VirtualSign::new + ReceiveConfig + SendData(0, block of any supported type): derived width/height equal dimensions(), type recorded", unwind=20, unwindset=[memcmp(20)], params={"types": "all"}),
    ]
    return Prop(
        "C19",
        ["SignType::from_bytes", "SignType::to_bytes", "SignType::dimensions", "VirtualSign::process_message (receive_config, send_data)"],
        "every supported type (variant list regenerated from sign_type.rs each run); all 2^128 16-byte blocks; every length 0..=40 with symbolic contents",
        "byte strings longer than 40 bytes (the length test is a single comparison)",
        [],
        COMMON_ASSUME + ["field positions of the block as documented in sign_type.rs 'Format Details'"],
        ["c19::"],
        hs,
        generators=[gen_types],
    )


PROPS["C19"] = _c19()


# ------------------------------------------------------------------------------------------- C20
def _c20():
    hs = [
        H("c20::configure_port_direct", "configure_port::<CfgPort>: prior PortSettings fully symbolic (11 baud rates + BaudOther(any usize), 4 char sizes, 3 parities, 2 stop bits, 3 flow controls), caller timeout symbolic (any Duration), one device operation among read_settings/write_settings/set_timeout refused (symbolic) or none", unwind=3, params={"prior_settings": "all", "fault": "any single op or none"}),
        H("c20::serial_sign_bus_try_new", "SerialSignBus::try_new on the same symbolic port: settings, 5 s timeout, error propagation", unwind=3, params={"timeout_s": 5}),
        H("c20::odk_try_new", "Odk::try_new on the same symbolic port: constructor fails iff the port refused an operation", unwind=3, params={"timeout_s": 10}),
    ]
    return Prop(
        "C20",
        ["flipdot_serial::configure_port::<CfgPort>", "SerialSignBus::<CfgPort>::try_new", "Odk::<CfgPort, NullBus>::try_new", "serial_core::SerialPort::reconfigure (blanket impl, executed as compiled)"],
        "the complete product of prior port settings, any caller timeout, every single injected refusal; instantiation P = harness CfgPort",
        "ports whose settings object rejects set_baud_rate(19200) (PortSettings never does); two refusals in one call (the first one already aborts); the 10 s of Odk::try_new is checked only through configure_port (Odk exposes no port accessor)",
        [],
        COMMON_ASSUME,
        ["c20::"],
        hs,
    )


PROPS["C20"] = _c20()


# ------------------------------------------------------------------------------------------- C06 / C07
def _page_specs(fams, prop):
    hs = []
    for w, h, q in genpages.sizes():
        tb = genpages.total_bytes(w, h)
        big = tb > 64
        for fam, desc, needs in fams:
            if needs == "pixel" and not (w > 0 and h > 0):
                continue
            if needs == "two" and not (w * h >= 2):
                continue
            if needs == "seq" and not (2 <= w * h <= 64):
                continue
            name = "gen_pages::%s_%dx%d" % (fam, w, h)
            tier = "quick" if q else "thorough"
            if needs == "seq" and not (q and tb <= 16):
                tier = "thorough"
            ef = []
            if fam == "c06_oob":
                ef = [r"byte_bit_indices|Page::<'_>::(get_pixel|set_pixel)"]
            hs.append(
                H(
                    name,
                    "%dx%d page (%d bytes): %s" % (w, h, tb, desc),
                    tier=tier,
                    unwind=4,
                    unwindset=[("pages::|bytes_eq", tb + 20), memcmp(tb + 20), ("fill|spec_fill|resize|extend_with|extend_trusted", tb + 20)],
                    params={"width": w, "height": h, "total_bytes": tb},
                    expect_fail=ef,
                    timeout=1500,
                    mem_expect=6 if big else 3,
                )
            )
    return hs


C06_FAMS = [
    ("c06_set_get", "page over ANY byte content (all bytes symbolic, borrowed), symbolic in-bounds (x,y) and value, second symbolic pixel: set_pixel/get_pixel/as_bytes/id/width/height", "two"),
    ("c06_oob", "ANY content; (x,y) over the full u32 range with x>=w or y>=h; get_pixel or set_pixel must panic (never return)", ""),
    ("c06_set_all", "ANY content; set_all_pixels(symbolic value): header, padding, length, every pixel byte", ""),
    ("c06_set_all_reads", "ANY content; after set_all_pixels every (symbolic) pixel reads the value", "pixel"),
    ("c06_sequence3", "ANY content; 3 symbolic pixel writes tracked against a bit model", "seq"),
]
C07_FAMS = [
    ("c07_new", "Page::new with symbolic id: [id,0x10,0,0] + zeros + 0xFF padding, length", ""),
    ("c07_new_set", "new page, one symbolic in-bounds pixel turned on: exactly bit y%8 of byte 4+x*ceil(h/8)+y/8", "pixel"),
    ("c07_from_bytes", "from_bytes over a borrowed slice of symbolic length 0..=total+17 and symbolic content: accepted iff length = padded size; error fields; exposes the bytes; rebuild equals", ""),
    ("c07_new_roundtrip", "from_bytes(new.as_bytes().to_vec()) == new (owned data)", ""),
]

PAGE_BOUNDS = "sizes: boundary classes (0x0, 5x0, 1x1, 2x9, 2x17, 1x33, 12x8 and 28x8 which have no padding; thorough adds 0x5, 1x8, 2x7, 3x16, 1x24, 6x16, 3x1, 1x7, 2x12, 1x255) and the dimensions of every supported sign type re-read from sign_type.rs (quick: 30x10, 30x7, 40x12; thorough: all); per size every byte content, every coordinate (full u32 range for the out-of-bounds check), both pixel values"


def _c06():
    return Prop(
        "C06",
        ["Page::get_pixel", "Page::set_pixel", "Page::set_all_pixels", "Page::byte_bit_indices", "Page::from_bytes", "Page::as_bytes", "Page::{id,width,height}", "Page::{bytes_per_column,data_bytes,total_bytes}"],
        PAGE_BOUNDS + "; sequences of 3 writes on the small sizes (longer sequences follow from the one-step result, which starts from arbitrary content)",
        "dimensions not listed (the index arithmetic for ALL u32 dimensions is decided separately by the SMT obligation); sequences longer than 3 as a direct check",
        [],
        COMMON_ASSUME + ["oracle: refmodel::ref_* page arithmetic in u64, from page.rs 'Format Details'", "out-of-bounds harnesses expect the documented panic inside Page::byte_bit_indices / get_pixel / set_pixel and nothing else"],
        ["gen_pages::c06_"],
        _page_specs(C06_FAMS, "C06"),
        generators=[genpages.gen_pages],
        obligations=[pagesmt.obligation("C06")],
        technique_extra=" + SMT over the nightly MIR of the page index arithmetic for ALL u32 dimensions/coordinates (own MIR->SMT-LIB translator, cvc5 --solve-bv-as-int=sum, z3 cross-check)",
    )


def _c07():
    return Prop(
        "C07",
        ["Page::new", "Page::from_bytes", "Page::as_bytes", "Page::set_pixel", "Page::{bytes_per_column,data_bytes,total_bytes,byte_bit_indices}", "<Page as PartialEq>::eq"],
        PAGE_BOUNDS + "; from_bytes lengths 0..=padded size+17",
        "dimensions not listed (arithmetic for all u32 dimensions: SMT obligation); candidate lengths above padded size + 17",
        [],
        COMMON_ASSUME + ["oracle: refmodel::ref_* page arithmetic in u64"],
        ["gen_pages::c07_"],
        _page_specs(C07_FAMS, "C07"),
        generators=[genpages.gen_pages],
        obligations=[pagesmt.obligation("C07")],
        technique_extra=" + SMT over the nightly MIR of the page size/index arithmetic for ALL u32 dimensions/coordinates (own MIR->SMT-LIB translator, cvc5 --solve-bv-as-int=sum, z3 cross-check)",
    )


PROPS["C06"] = _c06()
PROPS["C07"] = _c07()


# ------------------------------------------------------------------------------------------- C01 / C02 / C03
def fr_rules(n):
    """Per-loop bounds for harnesses that run the real encoder/decoder on n data bytes."""
    ln = 13 + 2 * n
    return [
        (r"run_utf8_validation\.1$", 2),
        ("run_utf8_validation", 6),
        ("from_ascii_bytes_radix|from_str_radix", 6),
        # generous: any loop of the codec over the text or the payload stays within the text length
        ("Chunks", ln + 3),
        ("fold", ln + 3),
        ("to_bytes|from_bytes|payload|checksum|parse_hex|flipdot_core::frame", ln + 3),
        ("ref_shape_end|ref_decode|ref_encode|frames::|bytes_eq|lemma_", ln + 3),
        memcmp(ln + 3),
        ("str_eq|span_by_name|Captures", 16),
        ("from_iter|extend|collect|spec_", ln + 3),
    ]


def _lemma_r(quick_names):
    hs = []
    for l in (11, 13):
        hs.append(
            H(
                "gen_frames::r_exact%d" % l,
                "Lemma R for every byte string of exactly %d bytes (the two shortest lengths that admit well-formed texts; cheap even when the pattern is not anchored: a dropped ^ or $ shows at 13 bytes)" % l,
                tier="quick",
                unwind=l + 3,
                unwindset=[("str_eq|group_index|bytes_eq", 16)],
                params={"len": l},
                timeout=1500,
                mem_gb=30,
                mem_expect=4,
                lemma="R",
            )
        )
    for nm, lmax, tq, to, mem in [("r_upto16", 16, "quick", 600, 4), ("r_upto32", 32, "quick", 900, 4), ("r_upto64", 64, "quick", 1500, 6), ("r_upto140", 140, "thorough", 5400, 16)]:
        hs.append(
            H(
                "gen_frames::" + nm,
                "Lemma R: every byte string of length 0..=%d (length and all bytes symbolic): the matcher generated from frame.rs's pattern accepts it iff it has the documented shape, and every named group spans the documented field" % lmax,
                tier=tq if nm in quick_names or tq == "thorough" else "thorough",
                unwind=lmax + 3,
                unwindset=[("str_eq|group_index|bytes_eq", 16)],
                params={"max_len": lmax},
                timeout=to,
                mem_gb=max(12, mem * 2),
                mem_expect=mem,
                lemma="R",
            )
        )
    for l in [x for x in genframes.R_EXACT_T if x > 13 or x == 12]:
        hs.append(
            H(
                "gen_frames::r_exact%d" % l,
                "Lemma R for every byte string of exactly %d bytes" % l,
                tier="thorough",
                unwind=l + 3,
                unwindset=[("str_eq|group_index|bytes_eq", 16)],
                params={"len": l},
                timeout=3600,
                mem_gb=24,
                mem_expect=10,
                lemma="R",
            )
        )
    return hs


def _enc(ns_q, ns_t, owned=True):
    hs = []
    for n in ns_q + ns_t:
        hs.append(
            H(
                "gen_frames::enc_n%d" % n,
                "enc: frame with %d borrowed data bytes, address/type/data symbolic: to_bytes and to_bytes_with_newline equal the reference encoding byte for byte" % n,
                tier="quick" if n in ns_q else "thorough",
                unwind=6,
                unwindset=fr_rules(n),
                params={"data_len": n},
                timeout=3000,
                mem_gb=24 if n > 100 else 12,
                mem_expect=12 if n > 100 else 3,
                lemma="B",
            )
        )
    if owned:
        for n in [0, 1, 16, 255]:
            hs.append(H("gen_frames::enc_owned_n%d" % n, "enc with %d owned data bytes" % n, tier="quick" if n < 2 else "thorough", unwind=6, unwindset=fr_rules(n), params={"data_len": n, "data": "owned"}, timeout=3000, mem_gb=24 if n > 100 else 12, mem_expect=12 if n > 100 else 3, lemma="B"))
    return hs


P_FACET_DESC = {
    "outcome": "accept / length mismatch / bad checksum with the documented precedence",
    "ok_fields": "accepted texts decode to the address, type and data the independent parser reads",
    "err_fields": "rejections report declared/actual counts resp. declared/computed checksum",
    "err_data": "rejections carry the offending text",
}


def _lemma_p(ns_q, ns_t, facets=None):
    hs = []
    for n in ns_q + ns_t:
        for crlf in (False, True):
            for facet in facets or genframes.P_FACETS:
                if facet == "err_data" and n > 8:
                    continue  # copying the offending text into the error did not fit the memory cap beyond 8 pairs
                q = n in ns_q and (facet in ("outcome", "ok_fields") or n <= 1)
                hs.append(
                    H(
                        "gen_frames::p_%s_%sn%d" % (facet, "crlf_" if crlf else "", n),
                        "Lemma P (%s): every well-shaped text with %d data pairs%s - all hex digits of both cases symbolic, so declared length and checksum are arbitrary - real Frame::from_bytes vs the independent decoder: %s" % (facet, n, " + CRLF" if crlf else "", P_FACET_DESC[facet]),
                        tier="quick" if q else "thorough",
                        unwind=6,
                        unwindset=fr_rules(n),
                        params={"data_pairs": n, "crlf": crlf, "facet": facet},
                        timeout=3000,
                        mem_gb=16,
                        mem_expect=4 if n < 8 else 9,
                        lemma="P",
                    )
                )
    return hs


def _lemma_m(ls_q, ls_t):
    return [
        H(
            "gen_frames::m_l%d" % l,
            "Lemma M: every %d-byte string WITHOUT the documented shape: real Frame::from_bytes returns InvalidFrame carrying the input" % l,
            tier="quick" if l in ls_q else "thorough",
            unwind=6,
            unwindset=fr_rules(max(0, (l - 11) // 2 + 1)),
            params={"len": l},
            lemma="M",
        )
        for l in ls_q + ls_t
    ]


def _lemma_ref(letter, ns_q, ns_t, what):
    hs = []
    for n in ns_q + ns_t:
        for crlf in (False, True):
            hs.append(
                H(
                    "gen_frames::%s_%sn%d" % (letter, "crlf_" if crlf else "", n),
                    "Lemma %s (reference encoder/decoder pair only, %d data bytes%s): %s" % (letter.upper(), n, " + CRLF" if crlf else "", what),
                    tier="quick" if n in ns_q else "thorough",
                    unwind=20 + 2 * n,
                    params={"data_len": n, "crlf": crlf},
                    timeout=3000,
                    lemma=letter.upper(),
                )
            )
    return hs


LEMMA_D = "the reference encoding of ANY frame has the documented shape, its bytes sum to 0 mod 256, and the reference decoder returns the frame"
LEMMA_E = "for EVERY accepted text, reference-encoding the decoded fields reproduces the text up to digit case and terminator"

FRAME_ASSUME = COMMON_ASSUME + [
    "the regex crate cannot be executed symbolically (kani-compiler ICE): its pattern is translated per run into a matcher (vlib/regexgen.py); Lemma R proves that matcher equivalent to the documented shape incl. named group spans; the decoder harnesses then use that shape predicate with a concrete end offset (regex stand-in, contract mode)",
    "the translator is validated natively on every run against the real regex crate (same pattern string): match/no-match and all group spans on ~190k strings",
    "trusted: the regex crate implements its documented leftmost-first semantics for the supported subset",
]
FRAME_STUBS = ["regex crate -> build/regex-shim (generated matcher + contract mode)"]


def _c01():
    hs = _lemma_r({"r_upto16", "r_upto32"}) + _enc(genframes.ENC_Q, genframes.ENC_T)
    # round trip = enc (real encoder == reference) + D (reference pair round-trips) + P2/P1 (real decoder == reference on
    # well-shaped texts); a direct decode(encode(f)) query is kept for tiny frames as a cross-check (it costs 10+ GB beyond that)
    hs += _lemma_ref("d", [0, 1, 2, 3, 15, 16, 17], [4, 8, 32, 64, 128], LEMMA_D)
    hs += _lemma_p([0, 1, 2, 3], [4, 8, 15, 16, 17], facets=["outcome", "ok_fields"])
    for n in [1]:
        for nl in (False, True):
            hs.append(
                H(
                    "gen_frames::rt_%sn%d" % ("nl_" if nl else "", n),
                    "direct cross-check: frame with %d data bytes (address, type, data symbolic): Frame::from_bytes(to_bytes%s(f)) == f" % (n, "_with_newline" if nl else ""),
                    tier="thorough",
                    unwind=6,
                    unwindset=fr_rules(n),
                    params={"data_len": n, "newline": nl},
                    timeout=3000,
                    mem_gb=24,
                    mem_expect=14,
                )
            )
    hs.append(H("gen_frames::len_borrowed", "Data::try_new on a borrowed slice of EVERY length 0..=70000 (symbolic): accepted iff <= 255, error fields", unwind=3, params={"lengths": "0..=70000"}))
    for l in [255, 256, 1000]:
        hs.append(H("gen_frames::len_owned%d" % l, "Data::try_new(Vec of %d bytes)" % l, unwind=3, params={"len": l}))
    return Prop(
        "C01",
        ["Frame::to_bytes", "Frame::to_bytes_with_newline", "Frame::payload", "frame::checksum", "Frame::from_bytes", "frame::parse_hex", "Data::try_new", "Frame::new", "the frame regex pattern (via generated matcher)"],
        "data lengths quick {0,1,2,3,15,16,17} (encoder) / {0,1,2,3,16} (round trip), thorough up to 255 incl. 127/128/129/254/255; per length every address, type and data byte; Data::try_new for every borrowed length 0..=70000 (symbolic) and owned 255/256/1000; Lemma R for all strings up to 32 bytes (quick) / 140 bytes and the lengths 129, 255-257 (thorough)",
        "data lengths not listed (the code is uniform in the length: stated, not proven); the encoder on a BORROWED empty data block (a zero-length array behind a Cow exhausts CBMC; the owned empty block is covered); data blocks longer than 70000 bytes for the length guard (a never-dereferenced slice descriptor of arbitrary length is rejected by Kani's pointer checks, so larger lengths are not encoded); strings longer than 527 bytes for the shape test",
        FRAME_STUBS,
        FRAME_ASSUME + ["oracle: refmodel::ref_encode (upper-case hex, big-endian address, LRC chosen so that all bytes sum to 0 mod 256)"],
        ["gen_frames::"],
        hs,
        obligations=[obligation_regex_validation],
        needs_regex=True,
    )


def _c03():
    hs = _lemma_r({"r_upto16", "r_upto32", "r_upto64"}) + _lemma_p(genframes.P_Q, genframes.P_T) + _lemma_m(genframes.M_Q, genframes.M_T) + _lemma_ref("e", [0, 1, 2, 3], [4, 8, 16, 32], LEMMA_E) + _enc([1, 2, 3], [4, 8, 16, 32], owned=False)
    return Prop(
        "C03",
        ["Frame::from_bytes", "frame::parse_hex", "frame::checksum", "Frame::payload", "Frame::to_bytes", "Data::try_new", "the frame regex pattern (via generated matcher)"],
        "Lemma R: all byte strings up to 64 bytes quick / 140 bytes + lengths {129,255,256,257} thorough; Lemma P: data pairs {0,1,2,3} quick + {4,8,15,16,17} thorough, with and without CRLF, every hex digit of both cases; Lemma M: malformed strings of lengths {0,1,10,11,12,13,15} quick + {2,5,9,14,16,17,21,32} thorough; totality = R + P + M (no failing check anywhere)",
        "strings longer than 257 bytes for the shape lemma (the exact lengths 521-527 around the longest legal frame exhausted 24 GB); data pair counts not listed",
        FRAME_STUBS,
        FRAME_ASSUME + ["oracle: refmodel::ref_decode (shape, then declared length, then LRC)"],
        ["gen_frames::"],
        hs,
        obligations=[obligation_regex_validation],
        needs_regex=True,
    )


def _c02():
    hs = _lemma_r({"r_upto16", "r_upto32"}) + _lemma_p(genframes.P_Q, [4, 8, 16], facets=["outcome", "ok_fields"]) + _enc([1, 2, 3], [4, 8, 16], owned=False)
    for n in genframes.K_Q + genframes.K_T:
        for crlf in (False, True):
            hs.append(
                H(
                    "gen_frames::k_%sn%d" % ("crlf_" if crlf else "", n),
                    "Lemma K: valid encoding of ANY frame with %d data bytes%s, damaged by a single substitution (any position, any of 255 other values), deletion, duplication, adjacent swap of unequal characters or truncation (kind and position symbolic): the independent decoder rejects it or returns the original frame" % (n, " + CRLF" if crlf else ""),
                    tier="quick" if n in genframes.K_Q else "thorough",
                    unwind=20 + 2 * n,
                    params={"data_len": n, "crlf": crlf},
                    timeout=3000,
                    mem_expect=4,
                    lemma="K",
                )
            )
    return Prop(
        "C02",
        ["Frame::from_bytes (Lemma P: acceptance soundness)", "Frame::to_bytes (enc)", "the frame regex pattern (Lemma R)", "reference encoder/decoder pair (Lemma K)"],
        "compositional: (R) pattern == documented shape for strings up to 32 bytes quick; (P) real decoder == independent decoder for 0..3 (+4,8,16) data pairs, all digits; (B) real encoder == reference encoder; (K) every single-character damage of every valid encoding with 0..3 (+4,8,16) data bytes is rejected by the independent decoder or decodes to the original",
        "frames with more data bytes than listed; multi-character damage",
        FRAME_STUBS,
        FRAME_ASSUME + ["the property for the real code follows from R + P + B + K; each lemma is discharged on every run"],
        ["gen_frames::"],
        hs,
        obligations=[obligation_regex_validation],
        needs_regex=True,
    )


PROPS["C01"] = _c01()
PROPS["C02"] = _c02()
PROPS["C03"] = _c03()


# ------------------------------------------------------------------------------------------- C09 / C10 / C11
CTL_STUBS = ["alloc::fmt::format (std::fmt::format) -> returns String::new(): only the text of SignError::UnexpectedResponse is lost"]
CTL_ASSUME = COMMON_ASSUME + [
    "oracle: ctl::RefCtl, a flat state machine transcribed from the doc comments of ensure_unconfigured / send_data / switch_page / send_pages / configure_if_needed in src/sign.rs",
    "the bus is the harness-side ctl::SymBus behind the real Rc<RefCell<dyn SignBus>>; instantiations SymBus<1,16> (configuration) and SymBus<P,ILEN> (pages)",
    "controller address symbolic (all 65536), sign type symbolic over all supported types",
]


def ctl_rules(ilen):
    return [memcmp(ilen + 4), ("data_ok|config_item|bytes_eq|run_pages", ilen + 4), ("to_vec|extend|spec_", ilen + 4)]


def ctl_h(name, desc, tier="quick", ilen=16, p=1, timeout=3000, mem=8, **params):
    rules = ctl_rules(ilen)
    att = params.get("attempts")
    if att:
        # harnesses limited to `att` transfer attempts: the bus cuts later attempts with assume(false), so the
        # retry loop of Sign::send_data (its last-numbered loop) can be unrolled att times only; the unwinding
        # assertion proves that no further iteration is reachable under that cut
        rules = [(r"send_data.*\.2$", att + 1)] + rules
    if params.get("polls"):
        rules = [("switch_page", params["polls"] + 3)] + rules
    return H(name, desc, tier=tier, unwind=max(5, p + 2, (ilen + 15) // 16 + 2), unwindset=rules, params=params, timeout=timeout, mem_gb=24, mem_expect=mem)


def _c09():
    hs = [ctl_h("c09::configure_a1", "Sign::configure as Max3000Dash30x7 (any address) against a conformant sign with a symbolic first-hello state: reset dance, then request acked before the chunk, chunk = the 16-byte block at offset 0, count 1, query; first transfer attempt only", op="configure", attempts=1),
          ctl_h("c09::configure_all_types", "Sign::configure (any address, any supported type) against a conformant sign whose first-hello state and per-attempt result (received/failed) are symbolic: request acked before the chunk, chunk = the type's 16-byte block at offset 0, count = chunks since the request, then the query; up to 3 attempts", tier="thorough", op="configure")]
    hs.append(ctl_h("c09::pages_p0_ack_required", "Sign::send_pages with an empty page list against a sign that is conformant except that its answer to EVERY receive request (first attempt and retries) is arbitrary: unless that answer is the matching acknowledgement from the own address, nothing further (chunk, count, query) is sent", p=0, op="send_pages", pages=0))
    for nm, p, ilen, w, h, tier in [
        ("pages_p0", 0, 16, 12, 8, "quick"),
        ("pages_p1_16_a1", 1, 16, 12, 8, "quick"),
        ("pages_p1_32_a1", 1, 32, 28, 8, "quick"),
        ("pages_p1_16", 1, 16, 12, 8, "thorough"),
        ("pages_p1_48_a1", 1, 48, 30, 7, "thorough"),
        ("pages_p2_16_a1", 2, 16, 12, 8, "thorough"),
        ("pages_p2_16", 2, 16, 12, 8, "thorough"),
    ]:
        hs.append(ctl_h("c09::" + nm, "Sign::send_pages with %d page(s) of %dx%d (%d bytes each, ALL bytes symbolic, also header/padding) against a conformant sign with symbolic per-attempt result: every chunk <=16 bytes, offsets 0,16,.. restarting per page, concatenation equals the page, count = chunks since the request, then query; %s" % (p, w, h, ilen, "first attempt only (retries are covered at the 16-byte size)" if nm.endswith("_a1") else "up to 3 attempts"), tier=tier, ilen=ilen, p=p, timeout=5400, mem=10 if ilen > 48 else 8, pages=p, page_bytes=ilen, **({"attempts": 1} if nm.endswith("_a1") else {})))
    return Prop(
        "C09",
        ["Sign::configure", "Sign::send_pages", "Sign::send_data", "Sign::ensure_unconfigured", "Sign::send_message / send_message_expect_response", "sign::verify_response", "SignType::to_bytes", "Page::as_bytes"],
        "quick: configure as Max3000Dash30x7 (first attempt), send_pages with no page (all three attempts; also with arbitrary answers to every request), one 16-byte and one 32-byte page (first attempt); thorough adds: configure for every supported type (all attempts), 1x16 and 2x16 bytes (all attempts), 2x16 and 1x48 bytes (first attempt); page contents fully symbolic",
        "pages larger than 48 bytes (96- and 336-byte pages and three-attempt runs of 48-byte pages did not finish within the caps; in particular the 16-bit offset limit at 65536 bytes / 4096 chunks is not reached); more than 2 pages; pages of different sizes in one call",
        CTL_STUBS,
        CTL_ASSUME,
        ["c09::"],
        hs,
    )


def _c10():
    hs = [
        ctl_h("c10::configure_a1", "Sign::configure (Max3000Dash30x7) against ARBITRARY replies at every step, conversations limited to the first transfer attempt (reset dance in all three variants + one transfer): message-by-message comparison with the reference controller", op="configure", attempts=1),
        ctl_h("c10::configure", "Sign::configure against ARBITRARY replies at every step (silence, bus error, any report or ack from any address, unrelated messages): each message sent must be exactly the one the reference controller prescribes for the replies so far (incl. chunk contents); outcome class must match; all sign types, all three attempts", tier="thorough", op="configure"),
        ctl_h("c10::configure_if_needed", "Sign::configure_if_needed, same adversary", tier="thorough", op="configure_if_needed"),
        ctl_h("c10::shut_down", "Sign::shut_down, same adversary", op="shut_down"),
        ctl_h("c10::show_loaded_page_k3", "Sign::show_loaded_page, same adversary; polling bounded to 3 trigger/in-progress reports", op="show_loaded_page", polls=3),
        ctl_h("c10::load_next_page_k3", "Sign::load_next_page, same adversary; polling bounded to 3", op="load_next_page", polls=3),
        ctl_h("c10::show_loaded_page_k6", "Sign::show_loaded_page, polling bounded to 6", tier="thorough", op="show_loaded_page", polls=6),
        ctl_h("c10::load_next_page_k6", "Sign::load_next_page, polling bounded to 6", tier="thorough", op="load_next_page", polls=6),
        ctl_h("c10::send_pages_p0", "Sign::send_pages with no page, same adversary", p=0, op="send_pages", pages=0),
        ctl_h("c10::send_pages_p1_16_a1", "Sign::send_pages with one 16-byte page (symbolic bytes), same adversary, first attempt only", op="send_pages", pages=1, page_bytes=16, attempts=1),
        ctl_h("c10::send_pages_p1_32_a1", "Sign::send_pages with one 32-byte page (two chunks), same adversary, first attempt only", ilen=32, op="send_pages", pages=1, page_bytes=32, attempts=1),
        ctl_h("c10::send_pages_p1_16", "Sign::send_pages with one 16-byte page (symbolic bytes), same adversary, all attempts", tier="thorough", op="send_pages", pages=1, page_bytes=16),
        ctl_h("c10::send_pages_p1_48_a1", "Sign::send_pages with one 48-byte page (3 chunks), same adversary, conversations limited to the first transfer attempt", tier="thorough", ilen=48, op="send_pages", pages=1, page_bytes=48, attempts=1),
        ctl_h("c10::send_pages_p2_16_a1", "Sign::send_pages with two 16-byte pages, same adversary, first attempt only", tier="thorough", p=2, op="send_pages", pages=2, page_bytes=16, attempts=1),
    ]
    return Prop(
        "C10",
        ["Sign::{configure, configure_if_needed, send_pages, show_loaded_page, load_next_page, shut_down}", "Sign::{ensure_unconfigured, send_data, switch_page, send_message, send_message_expect_response}", "sign::verify_response"],
        "every reply at every step is symbolic over: none, bus error, ReportState(any address, any of 13 states), AckOperation(any address, any of 6 operations), and three kinds of unrelated message (Hello, DataChunksSent, SendData); operations: quick: configure (one type, first attempt), shut_down, show/load (polling <= 3), send_pages with no page (all attempts), one 16-byte and one 32-byte page (first attempt); thorough adds configure for all types with all attempts, configure_if_needed, polling <= 6, one 16-byte page (all attempts), 2x16 and 1x48 bytes (first attempt)",
        "polling loops longer than the bound; unrelated replies of the kinds not listed (the controller handles every non-report/non-ack reply in the same `_` arm); larger page lists",
        CTL_STUBS,
        CTL_ASSUME,
        ["c10::"],
        hs,
    )


def _c11():
    hs = [
        ctl_h("c11::configure_a1", "Sign::configure (Max3000Dash30x7) against arbitrary replies, first transfer attempt only: same invariants", op="configure", attempts=1),
        ctl_h("c11::configure", "Sign::configure against arbitrary replies; invariants only: success => own 'received' report concluded the final attempt; nothing sent after a disallowed reply or bus error; error class; <= 3 attempts; retry only after own 'failed'; own address on every addressed message; all sign types, all three attempts", tier="thorough", op="configure"),
        ctl_h("c11::configure_if_needed", "Sign::configure_if_needed, same invariants (a foreign 'ready' report must not suppress configuration)", tier="thorough", op="configure_if_needed"),
        ctl_h("c11::shut_down", "Sign::shut_down, same invariants", op="shut_down"),
        ctl_h("c11::show_loaded_page_k3", "Sign::show_loaded_page (polling <= 3), same invariants", op="show_loaded_page", polls=3),
        ctl_h("c11::load_next_page_k3", "Sign::load_next_page (polling <= 3), same invariants", op="load_next_page", polls=3),
        ctl_h("c11::send_pages_p0", "Sign::send_pages with no page", p=0, op="send_pages", pages=0),
        ctl_h("c11::send_pages_p1_16_a1", "Sign::send_pages with one 16-byte page, first attempt only", op="send_pages", pages=1, page_bytes=16, attempts=1),
        ctl_h("c11::send_pages_p1_32_a1", "Sign::send_pages with one 32-byte page (two chunks: a bad reply on a non-final chunk), first attempt only", ilen=32, op="send_pages", pages=1, page_bytes=32, attempts=1),
        ctl_h("c11::send_pages_p1_16", "Sign::send_pages with one 16-byte page, all attempts", tier="thorough", op="send_pages", pages=1, page_bytes=16),
        ctl_h("c11::send_pages_p1_48_a1", "Sign::send_pages with one 48-byte page (three chunks: a bad reply on a non-final chunk), conversations limited to the first attempt", tier="thorough", ilen=48, op="send_pages", pages=1, page_bytes=48, attempts=1),
        ctl_h("c11::send_pages_p2_16_a1", "Sign::send_pages with two 16-byte pages, first attempt only", tier="thorough", p=2, op="send_pages", pages=2, page_bytes=16, attempts=1),
    ]
    return Prop(
        "C11",
        ["Sign::{configure, configure_if_needed, send_pages, show_loaded_page, load_next_page, shut_down} and their private helpers"],
        "same adversary and bounds as C10 (every reply symbolic at every step); invariants instead of a message-by-message comparison",
        "as C10",
        CTL_STUBS,
        CTL_ASSUME + ["'a reply the protocol does not allow at that point' is decided by the reference controller's transition table"],
        ["c11::"],
        hs,
    )


PROPS["C09"] = _c09()
PROPS["C10"] = _c10()
PROPS["C11"] = _c11()


# ------------------------------------------------------------------------------------------- C15 / C16 / C18
IO_ASSUME = COMMON_ASSUME + [
    "streams are the harness-side symio::SymReader / SymWriter / SerPort (fixed tape, symbolic fragmentation, symbolic Interrupted placement, symbolic hard-failure index)",
    "decoding of the line read uses the regex stand-in in contract mode (see C03 for the lemma that justifies it)",
]
IO_RULES = [("run_utf8_validation\\.1$", 2), ("run_utf8_validation", 6), ("from_ascii_bytes_radix", 6), memcmp(40)]


def io_h(name, desc, tier="quick", unwind=34, timeout=900, mem=6, rules=None, **params):
    return H(name, desc, tier=tier, unwind=unwind, unwindset=(rules or []) + IO_RULES, params=params, timeout=timeout, mem_gb=24, mem_expect=mem)


# the bridge encodes a reply that came back through Result<Option<Message>>: CBMC no longer knows its kind, so the
# encoder loops are bounded by the longest reply the harness bus can produce (5 header/data bytes + checksum); the
# unwinding assertions prove that bound
BRIDGE_RULES = [("to_bytes|checksum|fold|payload", 8)]


def _c15():
    hs = [
        io_h("c15::read_frame_hello", "stream = literal 15-byte frame line + 3 SYMBOLIC stray bytes; greedy reader (hands out as many bytes as are requested): Frame::read consumes exactly the line, never asks for more than one byte, returns the frame", line=15),
        io_h("c15::read_frame_second", "same for a 13-byte zero-data frame line (= the rest of a stream after a first frame was read: back-to-back frames)", line=13),
        io_h("c15::read_garbage_empty_line", "literal empty line + 4 symbolic bytes (may contain line feeds): exactly 1 byte consumed, InvalidFrame carries the line", line=1),
        io_h("c15::read_garbage_short", "literal 'hello' line + 4 symbolic bytes: exactly 6 bytes consumed, InvalidFrame carries exactly the line", line=6),
        io_h("c15::read_garbage_leading_bytes", "a well-formed frame preceded by a stray byte on the same line + 3 symbolic bytes: consumed to the LF, rejected", line=14),
        io_h("c15::read_garbage_bare_lf_frame", "a frame terminated by a bare LF + 3 symbolic bytes: consumed to the LF, rejected", line=12),
        io_h("c15::read_hard_error_first", "valid 15-byte frame line; reader fails hard at call 0: FrameError::Io", fault="read@0", timeout=1500),
        io_h("c15::read_hard_error_mid", "reader fails hard at call 7", fault="read@7", timeout=1500),
        io_h("c15::read_hard_error_last", "reader fails hard at call 14", tier="thorough", fault="read@14", timeout=1500),
        io_h("c15::write_bytewise_n1", "Frame::write of ANY frame with 1 data byte (address, type, data symbolic) to a sink that accepts exactly one byte per call: delivered bytes = encoding + CRLF exactly once, in order", data_len=1, unwind=19),
        io_h("c15::write_bytewise_n3", "same with 3 symbolic data bytes", data_len=3, unwind=23),
        io_h("c15::write_fragmented_n1", "Frame::write, 1 symbolic data byte, sink accepts a SYMBOLIC 1..=n bytes per call (every fragmentation)", tier="thorough", data_len=1, unwind=19, timeout=2400),
        io_h("c15::write_hard_error_first", "Frame::write to a one-byte-per-call sink that fails hard at call 0: Err(Io), never Ok", fault="write@0", timeout=1500),
        io_h("c15::write_hard_error_second", "sink fails hard at call 1 (after one byte was delivered)", fault="write@1", timeout=1500),
    ]
    return Prop(
        "C15",
        ["Frame::read::<SymReader>", "Frame::write::<SymWriter>", "std BufReader::with_capacity / read_until / Write::write_all (executed as compiled)", "Frame::from_bytes", "Frame::to_bytes_with_newline"],
        "reads: literal lines (valid frames of 15 and 13 bytes - one read each, back-to-back by composition over the stream position -, empty line, short garbage, bare-LF frame) followed by SYMBOLIC stray bytes, greedy reader, hard failure at calls 0/7/14; writes: any frame with 1 or 3 symbolic data bytes to a one-byte-per-call sink (quick); every fragmentation for 1 data byte (thorough), every fragmentation of the sink, hard failure at call 0 or 1",
        "symbolic LINE contents (std's read_until forks at every byte that might be a line feed and exhausts CBMC; the line is therefore literal and only what follows it is symbolic); Interrupted reads/writes (std's retry loop together with io::Error's bit-packed representation did not finish under CBMC within the cap); longer frames (writes of frames with 2 or more data bytes under symbolic fragmentation did not finish within the cap)",
        ["regex crate -> stand-in (contract mode)"],
        IO_ASSUME,
        ["c15::"],
        hs,
        needs_regex=True,
    )


SER_STUBS = ["regex crate -> stand-in (contract mode)", "std::thread::sleep -> symio::fake_sleep (virtual clock: records the requested duration and its position among the port's I/O events)"]


TAPE_DESC = ["state %d from address %s" % (i, "0x0003" if i % 2 == 0 else "0xBEEF") for i in range(13)] + ["ack StartReset from 0x0003", "unknown frame type 9"]
SER_PAIRS = [(k, 13) for k in (0, 1, 2, 8, 9, 6, 7, 10, 11, 12, 13, 14, 15)] + [(2, t) for t in list(range(13)) + [14]] + [(1, 8), (12, 10)]
SER_QUICK = {(0, 13), (1, 13), (2, 13), (10, 13), (15, 13), (6, 13), (7, 13), (2, 0), (2, 1), (2, 4), (2, 7), (2, 8), (2, 9), (2, 10), (2, 11), (2, 14), (1, 8), (12, 10)}


OPS = ["ReceiveConfig", "ReceivePixels", "ShowLoadedPage", "LoadNextPage", "StartReset", "FinishReset"]


def KIND_NAME(k):
    if k < 8:
        return KINDS[k]
    if k == 8:
        return "ReportState(PageLoaded)"
    if k == 9:
        return "AckOperation(StartReset)"
    return "RequestOperation(%s)" % OPS[k - 10]


def _ser_plain(prefix, what):
    hs = []
    for k, t in SER_PAIRS:
        hs.append(
            io_h(
                "c16::%s_k%d_t%d" % (prefix, k, t),
                "SerialSignBus<SerPort>::process_message for a %s message (parameters symbolic) with the literal reply line '%s' + 2 symbolic stray bytes waiting on the port: %s" % (KIND_NAME(k), TAPE_DESC[t], what),
                tier="quick" if (k, t) in SER_QUICK else "thorough",
                kind=KIND_NAME(k),
                reply=TAPE_DESC[t],
            )
        )
    return hs


def _c16():
    hs = _ser_plain("c16", "bytes written = the message's frame encoding + CRLF and nothing else; exactly one line read iff the message is a hello / state query / operation request, else no read at all; reply = decoding of the line")
    hs.append(io_h("c16::c16_garbage_reply", "QueryState answered by the malformed line 'hello': Err, exactly one line read", message="QueryState"))
    for l, t in [(1, "quick"), (4, "thorough"), (15, "thorough"), (16, "quick")]:
        hs.append(io_h("c16::c16_data%d" % l, "data chunk of %d symbolic bytes: exactly its encoding + CRLF written, nothing read, Ok(None)" % l, tier=t, unwind=max(34, 2 * l + 20), data_len=l))
    return Prop(
        "C16",
        ["SerialSignBus::<SerPort>::process_message", "serial_sign_bus::response_expected", "Frame::write", "Frame::read", "Message::from(Frame)", "Frame::from(Message)"],
        "every message kind (one harness per kind, parameters symbolic) against an acknowledgement line; a state query against 15 literal reply lines (13 states from two addresses, an ack, an unknown frame); data chunks of 1, 16 (quick) and 4, 15 (thorough) symbolic bytes; malformed reply line",
        "symbolic reply LINES and symbolic message KINDS in one query (both make buffer lengths symbolic, which CBMC cannot handle here); write/read failures through the serial bus (the conversion of an io::Error inside process_message did not finish under CBMC within the cap; failures are covered at the Frame::read / Frame::write level by C15)",
        SER_STUBS,
        IO_ASSUME + ["expected wire text = reference encoding of Frame::from(message) (the message->frame table is C04/C05's subject)"],
        ["c16::c16_"],
        hs,
        needs_regex=True,
    )


def _c18():
    hs = _ser_plain("c18", "a pause of >= 100 ms after the read iff the reply is a page-load / page-show in-progress report; otherwise no sleep call at all")
    for l, t in [(1, "quick"), (4, "thorough"), (15, "quick"), (16, "quick")]:
        hs.append(io_h("c16::c18_data%d" % l, "data chunk of %d symbolic bytes: exactly one pause of >= 30 ms, placed after the write and before returning" % l, tier=t, unwind=max(34, 2 * l + 20), data_len=l))
    return Prop(
        "C18",
        ["SerialSignBus::<SerPort>::process_message", "serial_sign_bus::{delay_after_send, delay_after_receive}"],
        "every message kind against an acknowledgement; a state query (and a hello / operation request) against all 13 state reports, an ack and an unknown frame; data chunks of 1, 15, 16 (quick) and 4 (thorough) bytes",
        "real elapsed time (the claim is about the delays requested from thread::sleep and their position relative to the port I/O)",
        SER_STUBS,
        IO_ASSUME + ["thread::sleep(d) blocks for at least d and nothing else in process_message spends time deliberately"],
        ["c16::c18_"],
        hs,
        needs_regex=True,
    )


PROPS["C15"] = _c15()
PROPS["C16"] = _c16()
PROPS["C18"] = _c18()


# ------------------------------------------------------------------------------------------- C08
def _c08():
    def h(name, desc, tier="quick", ilen=16, p=1, timeout=2400, mem=8, **params):
        return H("c08::" + name, desc, tier=tier, unwind=max(5, p + 2, (ilen + 15) // 16 + 2), unwindset=ctl_rules(ilen) + [("bytes_eq|inv_holds|any_inv_sign", ilen + 4)], params=params, timeout=timeout, mem_gb=24, mem_expect=mem)

    prior = "virtual sign in ANY state satisfying the representation invariant (13 protocol states, symbolic address = controller's address, flip style, chunk counter, recorded type, all bytes)"
    hs = [
        h("configure_blank_dash", prior + " with blank sizes; real Sign::configure as Max3000Dash30x7 over the real VirtualSignBus: Ok, ConfigReceived, type recorded, dimensions, no pages", type="Max3000Dash30x7", prior="0x0"),
        h("configure_midtransfer_dash", prior + " configured 12x8 with a complete 16-byte page buffered (mid pixel transfer or parked in reset); configure as Max3000Dash30x7", type="Max3000Dash30x7", prior="12x8 pending 16"),
        h("configure_withpage_horizon", prior + " configured 12x8 holding one stored page; configure as HorizonDash40x12", tier="thorough", type="HorizonDash40x12", prior="12x8 one page"),
        h("configure_short_buffer_side", prior + " configured 30x7 with 32 of 48 bytes buffered; configure as Max3000Side90x7", tier="thorough", ilen=48, type="Max3000Side90x7", prior="30x7 pending 32"),
        h("cin_blank_dash", prior + " with blank sizes; Sign::configure_if_needed: Ok; a ready sign is left alone, any other is freshly configured", type="Max3000Dash30x7", prior="0x0"),
        h("cin_withpage_dash", prior + " 12x8 with one stored page; Sign::configure_if_needed", tier="thorough", type="Max3000Dash30x7", prior="12x8 one page"),
        h("send_p0", "sign configured 12x8 in ANY page-accepting state (config received, pixels failed, page loaded/shown/in progress, showing pages); send_pages(no pages): Ok(style), no pages stored, loaded/showing state", p=0, pages=0),
        H("c08::model_composition_p1_16", "composition lemma on the reference machines: RefCtl's send_pages stream for one 16-byte page (bytes symbolic) fed into ref_sign_step from any page-accepting state: success, matching style, the sign holds exactly the page", unwind=20, params={"pages": 1, "page_bytes": 16}, lemma="composition"),
        H("c08::model_composition_p2_48", "same for two 48-byte pages (3 chunks each)", unwind=20, params={"pages": 2, "page_bytes": 48}, lemma="composition"),
        H("c08::model_composition_p2_96", "same for two 96-byte pages (6 chunks each)", tier="thorough", unwind=24, params={"pages": 2, "page_bytes": 96}, timeout=3000, lemma="composition"),
        h("show_loaded", "sign holding a page in ANY of page loaded / load in progress / shown / show in progress / showing pages; show_loaded_page: Ok; manual sign ends page-shown, automatic sign unchanged", op="show_loaded_page"),
        h("load_next", "same prior; load_next_page: Ok; manual sign ends page-loaded, automatic unchanged", op="load_next_page"),
    ]
    return Prop(
        "C08",
        ["Sign::{configure, configure_if_needed, send_pages, show_loaded_page, load_next_page} (real)", "VirtualSignBus::process_message / VirtualSign::process_message (real)", "Page::from_bytes / as_bytes", "SignType::to_bytes / from_bytes / dimensions"],
        "prior sign state: every invariant state in the listed size shapes; configure as Max3000Dash30x7 (quick), HorizonDash40x12 and Max3000Side90x7 (thorough); configure_if_needed; send_pages with an empty page list from every page-accepting state; show / load-next from every page state; both flip styles. That pages ARRIVE bit-exact is decided compositionally: C09 (the controller's chunk stream is exactly the pages' bytes, in order, correctly offset and counted, for every page content) + C13 (the virtual sign assembles exactly the chunks it receives into pages of the configured size and reports 'received' iff the count matches) + C10 (the controller accepts exactly that report); plus the composition lemma c08::model_composition_* on the two reference machines (RefCtl's stream fed into ref_sign_step stores exactly the pages, for symbolic page bytes)",
        "a direct query of send_pages with page data from an ARBITRARY prior sign state (Sign + VirtualSign + page buffers in one formula exhaust 44 GB in CBMC, even from a fresh sign; covered compositionally as stated); other sign types (the 11 configuration blocks themselves are C19's subject); more than one sign on the bus (C14)",
        CTL_STUBS,
        COMMON_ASSUME + ["prior states constrained only by vsign::inv_holds (proved inductive by C12)", "hook: VirtualSign::verif_from_parts / verif_parts", "Sign, bus and results are mem::forget-ed at the end (drop glue is not part of the property)"],
        ["c08::"],
        hs,
    )


PROPS["C08"] = _c08()


# ------------------------------------------------------------------------------------------- C17
def _c17():
    hs = []
    fw = [
        ("fwd_hello_silent", "Hello(3) line, bus stays silent: nothing written back, Ok", "quick"),
        ("fwd_hello_buserr", "Hello(3) line, bus fails: OdkError::Bus, nothing written", "quick"),
        ("fwd_request_silent", "RequestOperation(3, StartReset) line, silent bus", "quick"),
        ("fwd_query_buserr", "QueryState(3) line, bus fails", "thorough"),
        ("fwd_goodbye_silent", "Goodbye(3) line, silent bus", "thorough"),
        ("fwd_lowercase_hello_silent", "Hello(3) line written with lower-case hex digits, silent bus", "thorough"),
    ]
    for n, d, t in fw:
        hs.append(io_h("c17::" + n, "Odk<SerPort, RecBus>::process_message on the literal line + 3 symbolic stray bytes: " + d + "; forwarded exactly once as the right message; nothing is written back when the bus stays silent or fails; a bus failure is reported as OdkError::Bus", tier=t, timeout=420, unwind=20, rules=BRIDGE_RULES))
    for n, d, t in [
        ("bad_garbage", "'hello' line", "quick"),
        ("bad_leading_byte", "a NUL byte before a well-formed frame on the same line", "quick"),
        ("bad_leading_text", "'7F' before a well-formed frame on the same line", "thorough"),
        ("bad_bare_lf", "a frame terminated by a bare LF", "thorough"),
        ("bad_empty", "an empty line", "quick"),
    ]:
        hs.append(io_h("c17::" + n, "Odk::process_message on an undecodable line (" + d + "): OdkError::Communication, bus not touched, nothing written", tier=t, timeout=420, unwind=20, rules=BRIDGE_RULES))
    # controller side of the wire (same harnesses as C16, re-discharged here so that C17 stands on its own)
    for k, t in [(1, 13), (2, 8), (15, 13), (6, 13)]:
        hs.append(io_h("c16::c16_k%d_t%d" % (k, t), "controller side of the wire: SerialSignBus::process_message for a %s message with reply line '%s' waiting (see C16)" % (KIND_NAME(k), TAPE_DESC[t]), kind=KIND_NAME(k)))
    hs.append(io_h("c16::c16_data16", "controller side of the wire: a 16-byte data chunk is written as exactly its encoding, nothing read", unwind=52, data_len=16))
    return Prop(
        "C17",
        ["Odk::<SerPort, RecBus>::process_message", "Odk::try_new", "SerialSignBus::<SerPort>::process_message", "Frame::read / Frame::write", "Message::from(Frame) / Frame::from(Message)"],
        "compositional: (bridge) literal frame lines for hello, state query, operation request, goodbye and a lower-case variant, with a bus that stays silent or fails; five kinds of undecodable line incl. a well-formed frame preceded by stray bytes; (controller side) C16's harnesses; (codec) C01/C03/C05: message -> frame -> text -> frame -> message is the identity. Together: each message has the same effect on the bus and yields the same reply over the wire as directly",
        "the bridge WRITING BACK a reply (Frame::from(reply).write(port) after the bus answered): the reply passes through Result<Option<Message>>, CBMC no longer knows its kind and explores the encoder with a symbolic data length (24 GB, no result) - the same two calls are decided for the controller side in C16; an end-to-end symbolic run of controller + serial bus + bridge + virtual bus in one query (two codecs and std's read_until in one formula exhaust CBMC; symbolic line contents fork read_until at every byte); the equivalence of whole conversations follows from the per-message lemmas by induction and is argued, not machine-checked",
        SER_STUBS,
        IO_ASSUME + ["RecBus: harness-side bus recording kind and address field of what it receives"],
        ["c17::"],
        hs,
        needs_regex=True,
    )


PROPS["C17"] = _c17()
