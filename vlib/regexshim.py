"""Regenerate the regex stand-in from the current tree and validate the translator natively."""
import os
import re
import shutil
import time

from . import regexgen
from .common import BUILD, REPO, VERIF, Lock, env_offline, read, run, write_if_changed

SHIM_SRC = os.path.join(VERIF, "shim", "regex")
SHIM_DST = os.path.join(BUILD, "regex-shim")
VAL_SRC = os.path.join(VERIF, "shim", "regexval")
VAL_DST = os.path.join(BUILD, "regexval")

FALLBACK_GENERATED = """// pattern could not be translated: %s
pub const PATTERN: &str = "";
pub const NGROUPS: usize = 1;
pub const NSLOTS: usize = 2;
pub const NONE: usize = usize::MAX;
pub const GROUP_NAMES: [&str; 1] = [""];
pub const START_ANCHORED: bool = false;
pub fn search(_b: &[u8], _caps: &mut [usize; NSLOTS]) -> bool { panic!("unsupported pattern") }
"""


def regex_version():
    lock = read(os.path.join(REPO, "Cargo.lock"))
    m = re.search(r'name = "regex"\nversion = "([^"]+)"', lock)
    return m.group(1) if m else "1.13.1"


def generate_shim():
    """Write build/regex-shim.  Returns (info, error)."""
    ver = regex_version()
    err = None
    info = {}
    try:
        pat = regexgen.extract_pattern()
        gen, info = regexgen.generate(pat)
        info["pattern_sha"] = __import__("hashlib").sha256(pat.encode()).hexdigest()[:16]
    except regexgen.Unsupported as e:
        err = "frame pattern outside the supported regex subset: %s" % e
        gen = FALLBACK_GENERATED % str(e).replace("\n", " ")
    except Exception as e:  # parser bug: fail closed
        err = "regex translator failed: %r" % e
        gen = FALLBACK_GENERATED % repr(e).replace("\n", " ")
    write_if_changed(os.path.join(SHIM_DST, "Cargo.toml"), read(os.path.join(SHIM_SRC, "Cargo.toml.in")).replace("@VERSION@", ver))
    for f in ("lib.rs", "contract.rs"):
        write_if_changed(os.path.join(SHIM_DST, "src", f), read(os.path.join(SHIM_SRC, "src", f)))
    write_if_changed(os.path.join(SHIM_DST, "src", "generated.rs"), gen)
    return info, err


def test_corpus():
    """Byte strings quoted in frame.rs (tests and docs), hex-encoded one per line."""
    src = read(os.path.join(REPO, "libs", "core", "src", "frame.rs"))
    out = []
    for m in re.finditer(r'b"((?:[^"\\]|\\.)*)"', src):
        s = m.group(1)
        try:
            b = bytes(s, "utf-8").decode("unicode_escape").encode("latin-1")
        except Exception:
            continue
        out.append(b.hex())
    return out


def validate_native(seed):
    """Differential run of the generated matcher against the real regex crate (native)."""
    t0 = time.time()
    ver = regex_version()
    with Lock("regexval"):
        write_if_changed(os.path.join(VAL_DST, "Cargo.toml"), read(os.path.join(VAL_SRC, "Cargo.toml.in")).replace("@VERSION@", ver))
        write_if_changed(os.path.join(VAL_DST, "src", "main.rs"), read(os.path.join(VAL_SRC, "src", "main.rs")))
        write_if_changed(os.path.join(VAL_DST, "gen", "generated.rs"), read(os.path.join(SHIM_DST, "src", "generated.rs")))
        lockf = os.path.join(VAL_DST, "Cargo.lock")
        if not os.path.exists(lockf):
            shutil.copy(os.path.join(REPO, "Cargo.lock"), lockf)
        corpus = os.path.join(VAL_DST, "corpus.txt")
        write_if_changed(corpus, "\n".join(test_corpus()) + "\n")
        rc, out, _ = run(["cargo", "run", "--release", "--offline", "-q", "--", str(seed), corpus], cwd=VAL_DST, env=env_offline(), timeout=1200)
    m = re.search(r"compared=(\d+) matched=(\d+) ok=(\w+)", out)
    ok = rc == 0 and m and m.group(3) == "true"
    return {
        "name": "regex-model-validation",
        "what": "generated matcher vs the real regex crate %s on the pattern extracted from frame.rs: match/no-match and every group span" % ver,
        "verdict": "discharged" if ok else "inconclusive",
        "detail": "" if ok else out[-1500:],
        "queries": 0,
        "discharged": 0,
        "native_comparisons": int(m.group(1)) if m else 0,
        "native_matches": int(m.group(2)) if m else 0,
        "wall_s": round(time.time() - t0, 2),
    }


def gen_regex(tier, seed):
    info, err = generate_shim()
    return {"files": {}, "error": err, "info": info}


def obligation_regex_validation(tier, seed, work):
    return validate_native(seed)
