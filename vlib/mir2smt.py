"""E2: MIR -> SMT-LIB for loop-free integer kernels of the tree under test.

`cargo +nightly rustc -- -Zunpretty=mir` is run on flipdot-core in its own target directory
(overflow checks on, /repo untouched).  The functions named by a query are executed
symbolically path by path (they are loop-free; calls to other repository functions are
inlined, calls into std are abstracted as uninterpreted pure functions of their arguments),
giving for every path a condition and an outcome (return value, overflow/div-by-zero panic,
explicit panic).  Properties are asserted negated over bit-vectors of the real widths and given
to cvc5 with the integer encoding (--solve-bv-as-int=sum), which decides the 64-bit
multiply/divide arithmetic that bit-blasting does not; /usr/bin/z3 cross-checks each query at a
reduced dimension range.  `unsat` = holds for all values; `sat` = counterexample, which is
replayed against the real code natively before it is reported.
"""
import os
import re
import subprocess
import time

from .common import BUILD, OUT, REPO, Lock, env_offline, log, read, run, write

WIDTH = {"u8": 8, "u16": 16, "u32": 32, "u64": 64, "usize": 64, "i32": 32, "i64": 64, "isize": 64, "bool": 0}


class Unsupported(Exception):
    pass


# ---------------------------------------------------------------------------------------------
# MIR dump


def dump_mir():
    tdir = os.path.join(BUILD, "mir-target")
    out = os.path.join(BUILD, "mir", "flipdot_core.mir")
    os.makedirs(os.path.dirname(out), exist_ok=True)
    with Lock("mir"):
        src = os.path.join(REPO, "libs", "core", "src", "lib.rs")
        env = env_offline({"CARGO_TARGET_DIR": tdir})
        # cargo prints nothing on a fresh (cached) build: force the crate to be re-emitted
        stamp = os.path.join(tdir, "debug", ".fingerprint")
        if os.path.isdir(stamp):
            for d in os.listdir(stamp):
                if d.startswith("flipdot-core-"):
                    import shutil

                    shutil.rmtree(os.path.join(stamp, d), ignore_errors=True)
        p = subprocess.run(
            ["cargo", "+nightly", "rustc", "--offline", "--lib", "--", "-Zunpretty=mir", "-C", "debug-assertions=off", "-C", "overflow-checks=on"],
            cwd=os.path.join(REPO, "libs", "core"),
            env=env,
            stdout=subprocess.PIPE,
            stderr=subprocess.PIPE,
            text=True,
        )
        if p.returncode != 0 or "fn " not in p.stdout:
            raise Unsupported("MIR dump failed: " + p.stderr[-800:])
        write(out, p.stdout)
    return p.stdout


class Fn:
    def __init__(self, name, params, ret, locals_, blocks):
        self.name = name
        self.params = params  # [(local, type)]
        self.ret = ret
        self.locals = locals_  # local -> type
        self.blocks = blocks  # bb -> (stmts, terminator)


def parse_mir(text):
    fns = {}
    consts = {}
    for m in re.finditer(r"^const ([\w:<>{}#' ,.-]+?): (\w+) = const (\d+)_\w+;", text, re.M):
        consts[m.group(1).split("::")[-1]] = (int(m.group(3)), m.group(2))
    for m in re.finditer(r"^fn (.+?)\((.*?)\) -> (.+?) \{\n(.*?)^\}\n", text, re.M | re.S):
        full, params, ret, body = m.group(1), m.group(2), m.group(3), m.group(4)
        short = full.split("::")[-1]
        plist = []
        for p in re.findall(r"(_\d+): ([^,]+(?:<[^>]*>)?[^,]*)", params):
            plist.append((p[0], p[1].strip()))
        locs = {l: t for l, t in plist}
        for lm in re.finditer(r"let (?:mut )?(_\d+): (.+?);", body):
            locs[lm.group(1)] = lm.group(2)
        blocks = {}
        for bm in re.finditer(r"^    (bb\d+)(?: \(cleanup\))?: \{\n(.*?)^    \}", body, re.M | re.S):
            lines = [l.strip() for l in bm.group(2).split("\n") if l.strip()]
            blocks[bm.group(1)] = (lines[:-1], lines[-1])
        fns.setdefault(short, []).append(Fn(full, plist, ret, locs, blocks))
    return fns, consts


# ---------------------------------------------------------------------------------------------
# symbolic values: (smt_term, width)   width 0 = Bool;  tuples are python tuples of values


def bv(n, w):
    return ("(_ bv%d %d)" % (n % (1 << w), w), w)


def resize(v, w):
    t, vw = v
    if vw == w:
        return v
    if vw == 0:
        return ("(ite %s (_ bv1 %d) (_ bv0 %d))" % (t, w, w), w)
    if vw < w:
        return ("((_ zero_extend %d) %s)" % (w - vw, t), w)
    return ("((_ extract %d 0) %s)" % (w - 1, t), w)


class Path:
    def __init__(self, cond, env):
        self.cond = list(cond)
        self.env = dict(env)


class Exec:
    def __init__(self, fns, consts, inputs):
        self.fns = fns
        self.consts = consts
        self.inputs = inputs  # name -> (term,width): for self fields etc.
        self.decls = []
        self.opaque = {}
        self.nfresh = 0
        self.named = {}
        self.sfx = ""
        # two faithful encodings of checked arithmetic: result = low half of the wide operation, or the
        # plain modular operation; solvers find different ones easy
        self.wide_value = False
        self.results = []  # (cond list, kind, value)

    def name(self, v):
        """SSA-style naming of compound terms: keeps shared subterms shared for the integer encoding."""
        t, w = v
        if w < 0 or not t.startswith("("):
            return v
        if t.startswith("(_ bv"):
            return v
        key = (t, w)
        if key not in self.named:
            n = "s%d" % (len(self.named) + 1) + self.sfx
            self.named[key] = n
            self.decls.append("(declare-const %s %s)" % (n, "Bool" if w == 0 else "(_ BitVec %d)" % w))
            self.decls.append("(assert (= %s %s))" % (n, t))
        return (self.named[key], w)

    def fresh(self, w, hint="t"):
        self.nfresh += 1
        n = "%s_%d" % (hint, self.nfresh)
        self.decls.append("(declare-const %s %s)" % (n, "Bool" if w == 0 else "(_ BitVec %d)" % w))
        return (n, w)

    def width_of(self, ty):
        ty = ty.strip()
        if ty in WIDTH:
            return WIDTH[ty]
        return None

    def operand(self, fn, env, s):
        s = s.strip()
        s = re.sub(r"^(copy|move) ", "", s)
        m = re.match(r"const (\d+)_(\w+)$", s)
        if m:
            return bv(int(m.group(1)), WIDTH[m.group(2)])
        m = re.match(r"const (true|false)$", s)
        if m:
            return (m.group(1), 0)
        m = re.match(r"const ([\w:]+)::MAX$", s)
        if m and m.group(1).split("::")[-1] in WIDTH:
            w = WIDTH[m.group(1).split("::")[-1]]
            return bv((1 << w) - 1, w)
        m = re.match(r"const ([\w:]+)$", s)
        if m and m.group(1).split("::")[-1] in self.consts:
            v, ty = self.consts[m.group(1).split("::")[-1]]
            return bv(v, WIDTH[ty])
        m = re.match(r"\((_\d+)\.(\d+): \w+\)$", s)
        if m:
            v = env.get(m.group(1))
            if isinstance(v, tuple) and len(v) > int(m.group(2)) and isinstance(v[0], tuple):
                return v[int(m.group(2))]
            raise Unsupported("tuple field of non-tuple: " + s)
        m = re.match(r"\(\(\*(_\d+)\)\.(\d+): (\w+)\)$", s)
        if m:
            key = "%s.%s" % (env.get(m.group(1) + "#name", m.group(1)), m.group(2))
            if key in self.inputs:
                return self.inputs[key]
            raise Unsupported("field read with no input binding: " + key)
        m = re.match(r"(_\d+)$", s)
        if m:
            if s in env:
                return env[s]
            raise Unsupported("read of unassigned local " + s)
        raise Unsupported("operand: " + s)

    def binop(self, op, a, b):
        (ta, wa), (tb, wb) = a, b
        if wa != wb:
            raise Unsupported("width mismatch in %s" % op)
        w = wa
        cmp = {"Eq": "=", "Lt": "bvult", "Le": "bvule", "Gt": "bvugt", "Ge": "bvuge"}
        if op in cmp:
            return ("(%s %s %s)" % (cmp[op], ta, tb), 0)
        if op == "Ne":
            return ("(not (= %s %s))" % (ta, tb), 0)
        ar = {"Add": "bvadd", "Sub": "bvsub", "Mul": "bvmul", "Div": "bvudiv", "Rem": "bvurem", "BitAnd": "bvand", "BitOr": "bvor", "BitXor": "bvxor", "Shl": "bvshl", "Shr": "bvlshr"}
        if op in ar:
            return ("(%s %s %s)" % (ar[op], ta, tb), w)
        if op in ("AddWithOverflow", "MulWithOverflow", "SubWithOverflow"):
            if op == "AddWithOverflow":
                wide = self.name(("(bvadd ((_ zero_extend 1) %s) ((_ zero_extend 1) %s))" % (ta, tb), w + 1))[0]
                ovf = "(bvuge %s (_ bv%d %d))" % (wide, 1 << w, w + 1)
                if self.wide_value:
                    return (("((_ extract %d 0) %s)" % (w - 1, wide), w), (ovf, 0))
                return (("(bvadd %s %s)" % (ta, tb), w), (ovf, 0))
            if op == "SubWithOverflow":
                return (("(bvsub %s %s)" % (ta, tb), w), ("(bvult %s %s)" % (ta, tb), 0))
            wide = self.name(("(bvmul ((_ zero_extend %d) %s) ((_ zero_extend %d) %s))" % (w, ta, w, tb), 2 * w))[0]
            ovf = "(bvuge %s (_ bv%d %d))" % (wide, 1 << w, 2 * w)
            if self.wide_value:
                return (("((_ extract %d 0) %s)" % (w - 1, wide), w), (ovf, 0))
            return (("(bvmul %s %s)" % (ta, tb), w), (ovf, 0))
        raise Unsupported("binop " + op)

    def rvalue(self, fn, env, dst, rhs):
        rhs = rhs.strip()
        m = re.match(r"(.+) as (\w+) \(IntToInt\)$", rhs)
        if m:
            return resize(self.operand(fn, env, m.group(1)), WIDTH[m.group(2)])
        m = re.match(r"(\w+)\((.+), (.+)\)$", rhs)
        if m and m.group(1) in ("Eq", "Ne", "Lt", "Le", "Gt", "Ge", "Add", "Sub", "Mul", "Div", "Rem", "BitAnd", "BitOr", "BitXor", "Shl", "Shr", "AddWithOverflow", "SubWithOverflow", "MulWithOverflow"):
            return self.binop(m.group(1), self.operand(fn, env, m.group(2)), self.operand(fn, env, m.group(3)))
        m = re.match(r"Not\((.+)\)$", rhs)
        if m:
            t, w = self.operand(fn, env, m.group(1))
            return ("(not %s)" % t, 0) if w == 0 else ("(bvnot %s)" % t, w)
        m = re.match(r"PtrMetadata\((.+)\)$", rhs)
        if m:
            v = self.operand(fn, env, m.group(1))
            return self.opaque_call("len", [v], 64)
        m = re.match(r"\((.+), (.+)\)$", rhs)
        if m and not rhs.startswith("(("):
            try:
                return (self.operand(fn, env, m.group(1)), self.operand(fn, env, m.group(2)))
            except Unsupported:
                pass
        m = re.match(r"Result::<.*>::(Ok|Err)\(", rhs)
        if m:
            return ("tag:" + m.group(1), -1)
        if rhs.startswith("&") or "::" in rhs and "{" in rhs or rhs.startswith("["):
            return ("opaque", -1)
        try:
            return self.operand(fn, env, rhs)
        except Unsupported:
            return ("opaque", -1)

    def opaque_call(self, name, args, w):
        key = (name, tuple(str(a) for a in args))
        if key not in self.opaque:
            self.opaque[key] = self.fresh(w if w is not None else 64, re.sub(r"\W", "_", name)[:20])
        return self.opaque[key]

    def run(self, fname, args, cond=None, depth=0):
        """Yields (cond, kind, value) with kind in return / panic-overflow / panic-divzero / panic-explicit."""
        cands = self.fns.get(fname)
        if not cands:
            raise Unsupported("function not found in MIR: " + fname)
        if len(cands) > 1:
            raise Unsupported("ambiguous function name: " + fname)
        fn = cands[0]
        env = {}
        for (loc, ty), a in zip(fn.params, args):
            env[loc] = a
            if isinstance(a, tuple) and len(a) == 2 and a[1] == -2:
                env[loc + "#name"] = a[0]
        out = []
        self._block(fn, "bb0", env, list(cond or []), out, depth, 0)
        return out

    def _block(self, fn, bb, env, cond, out, depth, steps):
        if steps > 200:
            raise Unsupported("too many blocks on a path (loop?) in " + fn.name)
        stmts, term = fn.blocks[bb]
        env = dict(env)
        for s in stmts:
            if s.startswith(("StorageLive", "StorageDead", "FakeRead", "nop", "debug", "PlaceMention", "Retag", "AscribeUserType", "Coverage", "ConstEvalCounter", "scope", "}")):
                continue
            m = re.match(r"(_\d+) = (.+);$", s)
            if not m:
                continue
            val = self.rvalue(fn, env, m.group(1), m.group(2))
            if isinstance(val, tuple) and len(val) == 2 and isinstance(val[0], tuple):
                val = (self.name(val[0]), self.name(val[1]))
            elif isinstance(val, tuple) and len(val) == 2 and isinstance(val[1], int):
                val = self.name(val)
            env[m.group(1)] = val
        t = term
        m = re.match(r"assert\((!?)(.+?), \"(.*?)\".*\) -> \[success: (bb\d+)", t)
        if m:
            c, w = self.operand(fn, env, m.group(2))
            good = "(not %s)" % c if m.group(1) == "!" else c
            bad = c if m.group(1) == "!" else "(not %s)" % c
            kind = "panic-divzero" if "zero" in m.group(3) else ("panic-bounds" if "index out of bounds" in m.group(3) else "panic-overflow")
            out.append((cond + [bad], kind, m.group(3)))
            return self._block(fn, m.group(4), env, cond + [good], out, depth, steps + 1)
        m = re.match(r"switchInt\((.+?)\) -> \[(.*)\];$", t)
        if m:
            v = self.operand(fn, env, m.group(1))
            arms = [a.strip() for a in m.group(2).split(",")]
            taken = []
            for a in arms:
                k, target = [x.strip() for x in a.split(":")]
                if k == "otherwise":
                    c = "(and %s)" % " ".join(["true"] + ["(not %s)" % x for x in taken])
                else:
                    if v[1] == 0:
                        c = v[0] if int(k) != 0 else "(not %s)" % v[0]
                    else:
                        c = "(= %s %s)" % (v[0], bv(int(k), v[1])[0])
                    taken.append(c)
                self._block(fn, target, env, cond + [c], out, depth, steps + 1)
            return
        m = re.match(r"goto -> (bb\d+);$", t)
        if m:
            return self._block(fn, m.group(1), env, cond, out, depth, steps + 1)
        m = re.match(r"drop\(.*\) -> \[return: (bb\d+)", t)
        if m:
            return self._block(fn, m.group(1), env, cond, out, depth, steps + 1)
        if t.startswith("return"):
            out.append((cond, "return", env.get("_0")))
            return
        if t.startswith(("resume", "unreachable")):
            return
        m = re.match(r"(_\d+) = (.+?)\((.*)\) -> (?:\[return: (bb\d+).*\]|unwind.*);$", t)
        if m:
            dst, callee, argstr, nxt = m.group(1), m.group(2), m.group(3), m.group(4)
            short = re.sub(r"::<[^>]*>", "", callee).split("::")[-1]
            if "panic" in short or nxt is None:
                out.append((cond, "panic-explicit", callee))
                return
            args = []
            for a in self._split_args(argstr):
                try:
                    args.append(self.operand(fn, env, a))
                except Unsupported:
                    args.append(("opaque:" + a, -1))
            if short in self.fns and len(self.fns[short]) == 1 and depth < 6 and all(isinstance(a, tuple) and a[1] >= 0 for a in args):
                # inline a repository function: continue once per path of the callee
                for c2, kind, val in self.run(short, args, cond, depth + 1):
                    if kind == "return":
                        e2 = dict(env)
                        e2[dst] = val
                        self._block(fn, nxt, e2, c2, out, depth, steps + 1)
                    else:
                        out.append((c2, kind, val))
                return
            w = self.width_of(fn.locals.get(dst, ""))
            env[dst] = self.opaque_call(callee, args, w) if w is not None else ("opaque:" + callee + str([str(a) for a in args]), -1)
            if w is None:
                # keep identity of opaque objects so that len(deref(x)) is stable
                env[dst] = ("obj:%s(%s)" % (short, ",".join(str(a) for a in args)), -1)
            return self._block(fn, nxt, env, cond, out, depth, steps + 1)
        raise Unsupported("terminator: " + t[:120])

    @staticmethod
    def _split_args(s):
        out, depth, cur = [], 0, ""
        for ch in s:
            if ch in "(<[":
                depth += 1
            if ch in ")>]":
                depth -= 1
            if ch == "," and depth == 0:
                out.append(cur)
                cur = ""
            else:
                cur += ch
        if cur.strip():
            out.append(cur)
        return out


# ---------------------------------------------------------------------------------------------
# solver drivers


def solve(smt, solver, timeout=60):
    path = os.path.join(BUILD, "mir", "q%d_%s.smt2" % (abs(hash(smt)) % 10**9, solver))
    write(path, smt)
    if solver == "cvc5":
        cmd = ["cvc5", "--lang", "smt2", "--solve-bv-as-int=sum", "--produce-models", "--tlimit=%d" % (timeout * 1000), path]
    else:
        cmd = ["/usr/bin/z3", "-T:%d" % timeout, path]
    t0 = time.time()
    try:
        p = subprocess.run(cmd, stdout=subprocess.PIPE, stderr=subprocess.STDOUT, text=True, timeout=timeout + 10)
        out = p.stdout
    except subprocess.TimeoutExpired:
        out = "timeout"
    dt = time.time() - t0
    if "(error" in out:
        return "error", out, dt
    first = out.strip().split("\n")[0] if out.strip() else ""
    if first in ("sat", "unsat"):
        return first, out, dt
    return "unknown", out, dt


def model_values(out, names):
    vals = {}
    for n in names:
        m = re.search(r"\(define-fun %s \(\) \(_ BitVec \d+\)\s+(#x[0-9a-fA-F]+|#b[01]+|\(_ bv(\d+) \d+\))" % re.escape(n), out)
        if m:
            if m.group(2):
                vals[n] = int(m.group(2))
            elif m.group(1).startswith("#x"):
                vals[n] = int(m.group(1)[2:], 16)
            else:
                vals[n] = int(m.group(1)[2:], 2)
    return vals


def slice_decls(decls, body):
    """Keep only the declarations / defining equations the query body depends on."""
    defs = {}
    order = []
    i = 0
    while i < len(decls):
        m = re.match(r"\(declare-const (\S+) ", decls[i])
        name = m.group(1)
        eq = None
        if i + 1 < len(decls) and decls[i + 1].startswith("(assert (= %s " % name):
            eq = decls[i + 1]
            i += 1
        defs[name] = (decls[i - 1] if eq else decls[i], eq)
        order.append(name)
        i += 1
    need = set()
    todo = [body]
    while todo:
        t = todo.pop()
        for n in re.findall(r"[A-Za-z_][A-Za-z0-9_]*", t):
            if n in defs and n not in need:
                need.add(n)
                if defs[n][1]:
                    todo.append(defs[n][1])
    out = []
    for n in order:
        if n in need:
            out.append(defs[n][0])
            if defs[n][1]:
                out.append(defs[n][1])
    return out
