"""setup: pre-build the Kani dependency graph so that the first check does not pay for it."""
import os

from . import kani
from .common import BUILD, log


def setup():
    os.makedirs(BUILD, exist_ok=True)
    from .props import PROPS

    from . import regexshim
    regexshim.generate_shim()
    gen = {}
    from .main import GLOBAL_GENERATORS
    for p in [None]:
        for g in GLOBAL_GENERATORS:
            try:
                gen.update(g("quick", 0).get("files", {}))
            except Exception as e:  # noqa
                log("generator failed during setup:", e)
    kani.gen_crate(gen)
    infos, out = kani.codegen(["selftest::"], os.path.join(BUILD, "work", "setup", "goto"))
    if infos is None:
        print(out[-4000:])
        return 1
    print("setup ok: kani dependency graph built")
    return 0
