"""C06/C07 arithmetic over the WHOLE u32 range, decided from the MIR of page.rs (engine E2)."""
import os
import re
import time

from . import mir2smt
from .common import BUILD, OUT, REPO, VERIF, Lock, env_offline, read, run, write, write_if_changed
from .mir2smt import Exec, Unsupported, bv, resize, solve


def page_field_order():
    src = read(os.path.join(REPO, "libs", "core", "src", "page.rs"))
    m = re.search(r"pub struct Page<'a>\s*\{(.*?)\}", src, re.S)
    if not m:
        raise Unsupported("struct Page not found")
    names = re.findall(r"^\s*(?:pub(?:\([^)]*\))?\s+)?(\w+)\s*:", re.sub(r"///.*", "", m.group(1)), re.M)
    return names


def zx(t):
    return "((_ zero_extend 32) %s)" % t


def build(fns, consts, sfx, wide=False):
    """Symbolically execute the four kernels for inputs w,h,x,y (suffix sfx)."""
    order = page_field_order()
    w, h, x, y = [("%s%s" % (n, sfx), 32) for n in "whxy"]
    inputs = {}
    for i, n in enumerate(order):
        if n == "width":
            inputs["self.%d" % i] = w
        if n == "height":
            inputs["self.%d" % i] = h
    ex = Exec(fns, consts, inputs)
    ex.sfx = sfx
    ex.wide_value = wide
    ex.decls = ["(declare-const %s%s (_ BitVec 32))" % (n, sfx) for n in "whxy"]
    res = {
        "bbi": ex.run("byte_bit_indices", [("self", -2), x, y]),
        "total": ex.run("total_bytes", [w, h]),
        "data": ex.run("data_bytes", [w, h]),
        "bpc": ex.run("bytes_per_column", [h]),
    }
    return ex, res, (w, h, x, y)


def conj(cs):
    return "(and true %s)" % " ".join(cs)


def queries(fns, consts, wide=False):
    ex, r, (w, h, x, y) = build(fns, consts, "", wide)
    nm = lambda t, wd=64: ex.name((t, wd))[0]
    W, H, X, Y = nm(zx(w[0])), nm(zx(h[0])), nm(zx(x[0])), nm(zx(y[0]))
    bpc_ref = nm("(bvudiv %s (_ bv8 64))" % nm("(bvadd %s (_ bv7 64))" % H))
    wb = nm("(bvmul %s %s)" % (W, bpc_ref))
    data_ref = nm("(bvadd (_ bv4 64) %s)" % wb)
    total_ref = nm("(bvmul %s (_ bv16 64))" % nm("(bvudiv %s (_ bv16 64))" % nm("(bvadd %s (_ bv15 64))" % data_ref)))
    xb = nm("(bvmul %s %s)" % (X, bpc_ref))
    byte_ref = nm("(bvadd %s %s)" % (nm("(bvadd (_ bv4 64) %s)" % xb), nm("(bvudiv %s (_ bv8 64))" % Y)))
    inb = "(and (bvult %s %s) (bvult %s %s))" % (x[0], w[0], y[0], h[0])
    qs = []  # (id, property, description, decls, assertion-to-be-unsat, vars)
    decls = ex.decls  # shared list: complete once all terms are built

    def q(qid, prop, desc, body, d=None):
        qs.append({"id": qid, "property": prop, "desc": desc, "decls": d or decls, "body": body, "vars": ["w", "h", "x", "y"]})

    # no arithmetic panic anywhere, for any u32 inputs
    for fname, paths in r.items():
        bad = [conj(c) for c, kind, _ in paths if kind in ("panic-overflow", "panic-divzero", "panic-bounds")]
        if bad:
            q("no-arith-panic-" + fname, "C06", "%s: no overflow / division panic for any u32 arguments (%d guarded operations)" % (fname, len(bad)), "(or false %s)" % " ".join(bad))
    # explicit panic exactly when out of bounds
    pan = [conj(c) for c, kind, _ in r["bbi"] if kind == "panic-explicit"]
    ret = [(conj(c), v) for c, kind, v in r["bbi"] if kind == "return"]
    if not ret:
        raise Unsupported("byte_bit_indices has no returning path")
    q("oob-panics", "C06", "byte_bit_indices returns normally only for x < width and y < height", "(and (or false %s) (not %s))" % (" ".join(c for c, _ in ret), inb))
    q("inbounds-never-panics", "C06", "byte_bit_indices never takes the panic path for in-bounds coordinates", "(and (or false %s) %s)" % (" ".join(pan), inb))
    dat = [(conj(c), v) for c, kind, v in r["data"] if kind == "return"]
    tot = [(conj(c), v) for c, kind, v in r["total"] if kind == "return"]
    for i, (cr, v) in enumerate(ret):
        byte, bit = v
        for j, (cd, dv) in enumerate(dat):
            for k, (ct, tv) in enumerate(tot):
                pre = "%s %s %s" % (cr, cd, ct)
                tag = "" if len(ret) * len(dat) * len(tot) == 1 else "-%d%d%d" % (i, j, k)
                q("index-in-data-area" + tag, "C06", "in-bounds pixel: 4 <= byte index < data_bytes <= total_bytes, bit < 8 (header and padding are never addressed)", "(and %s (not (and (bvuge %s (_ bv4 64)) (bvult %s %s) (bvule %s %s) (bvult %s (_ bv8 8)))))" % (pre, byte[0], byte[0], dv[0], dv[0], tv[0], bit[0]))
                q("index-formula" + tag, "C07", "byte index = 4 + x*ceil(h/8) + y/8 and bit = y mod 8 (least significant bit = top row)", "(and %s (not (and (= %s %s) (= %s ((_ extract 7 0) (bvurem %s (_ bv8 32)))))))" % (cr, byte[0], byte_ref, bit[0], y[0]))
    for j, (cd, dv) in enumerate(dat):
        q("data-bytes-formula-%d" % j, "C07", "data_bytes = 4 + width*ceil(height/8) for all u32 dimensions", "(and %s (not (= %s %s)))" % (cd, dv[0], data_ref))
        for k, (ct, tv) in enumerate(tot):
            q("padding-%d%d" % (j, k), "C07", "total_bytes is a multiple of 16 and 0 <= total_bytes - data_bytes < 16", "(and %s %s (not (and (= (bvurem %s (_ bv16 64)) (_ bv0 64)) (bvuge %s %s) (bvult (bvsub %s %s) (_ bv16 64)))))" % (cd, ct, tv[0], tv[0], dv[0], tv[0], dv[0]))
    # injectivity: two executions on the same page
    ex1, r1, (w1, h1, x1, y1) = build(fns, consts, "_a", wide)
    ex2, r2, (w2, h2, x2, y2) = build(fns, consts, "_b", wide)
    ret1 = [(conj(c), v) for c, kind, v in r1["bbi"] if kind == "return"]
    ret2 = [(conj(c), v) for c, kind, v in r2["bbi"] if kind == "return"]
    d2 = ex1.decls + ex2.decls
    for i, (c1, v1) in enumerate(ret1):
        for j, (c2, v2) in enumerate(ret2):
            body = "(and (= w_a w_b) (= h_a h_b) %s %s (or (not (= x_a x_b)) (not (= y_a y_b))) (= %s %s) (= %s %s))" % (c1, c2, v1[0][0], v2[0][0], v1[1][0], v2[1][0])
            qs.append({"id": "injective-%d%d" % (i, j), "property": "C07", "desc": "two different in-bounds pixels of the same page never share (byte, bit)", "decls": d2, "body": body, "vars": ["w_a", "h_a", "x_a", "y_a", "x_b", "y_b"]})
    return qs


def smt_text(qr, small=False, model=False):
    lines = ["(set-logic QF_BV)"] if small else ["(set-logic ALL)"]
    lines += mir2smt.slice_decls(qr["decls"], qr["body"])
    if small:
        declared = " ".join(lines)
        for v in qr["vars"]:
            if "(declare-const %s " % v in declared:
                lines.append("(assert (bvult %s (_ bv256 32)))" % v)
    lines.append("(assert %s)" % qr["body"])
    lines.append("(check-sat)")
    if model:
        lines.append("(get-model)")
    return "\n".join(lines) + "\n"


def native_replay(vals):
    """Run the real code on a counterexample (if the page can be allocated)."""
    w, h = vals.get("w", vals.get("w_a", 0)), vals.get("h", vals.get("h_a", 0))
    x, y = vals.get("x", vals.get("x_a", 0)), vals.get("y", vals.get("y_a", 0))
    if w * ((h + 7) // 8) > (1 << 26):
        return {"ran": False, "why": "page of %dx%d is too large to allocate for a native run" % (w, h)}
    src = os.path.join(VERIF, "shim", "pagereplay")
    dst = os.path.join(BUILD, "pagereplay")
    with Lock("pagereplay"):
        write_if_changed(os.path.join(dst, "Cargo.toml"), read(os.path.join(src, "Cargo.toml.in")).replace("@REPO@", REPO))
        write_if_changed(os.path.join(dst, "src", "main.rs"), read(os.path.join(src, "src", "main.rs")))
        if not os.path.exists(os.path.join(dst, "Cargo.lock")):
            import shutil

            shutil.copy(os.path.join(REPO, "Cargo.lock"), os.path.join(dst, "Cargo.lock"))
        rc, out, _ = run(["cargo", "run", "--offline", "-q", "--", str(w), str(h), str(x), str(y)], cwd=dst, env=env_offline(), timeout=900)
    bpc = (h + 7) // 8
    data = 4 + w * bpc
    total = (data + 15) // 16 * 16
    inb = x < w and y < h
    want_diff = [(4 + x * bpc + y // 8, 1 << (y % 8))] if inb else None
    problems = []
    m = re.search(r"new=ok len=(\d+)", out)
    if not m:
        problems.append("Page::new panicked")
    elif int(m.group(1)) != total:
        problems.append("page length %s, documented %d" % (m.group(1), total))
    if inb:
        m2 = re.search(r"set=ok diffs=\[(.*?)\]", out)
        if not m2:
            problems.append("in-bounds set_pixel panicked")
        else:
            got = [(int(a), int(b)) for a, b in re.findall(r"\((\d+), (\d+)\)", m2.group(1))]
            if got != want_diff:
                problems.append("set_pixel(%d,%d) changed %s, documented %s" % (x, y, got, want_diff))
    else:
        if "set=panic" not in out and "new=ok" in out:
            problems.append("out-of-bounds set_pixel(%d,%d) on %dx%d did not panic" % (x, y, w, h))
    return {"ran": True, "output": out[-400:], "reproduced": bool(problems), "problems": problems, "inputs": {"w": w, "h": h, "x": x, "y": y}}


def obligation(prop):
    def ob(tier, seed, work):
        t0 = time.time()
        name = "page-arithmetic-all-u32 (MIR -> SMT, cvc5 integer encoding)"
        try:
            mir = mir2smt.dump_mir()
            fns, consts = mir2smt.parse_mir(mir)
            keep = lambda q: q["property"] == prop or prop == "C06" and q["id"].startswith("no-arith")
            qs = [q for q in queries(fns, consts) if keep(q)]
            alt = {q["id"]: q for q in queries(fns, consts, wide=True) if keep(q)}
        except Unsupported as e:
            return {"name": name, "verdict": "inconclusive", "detail": "MIR of the page kernels is outside the translator's subset: %s" % e, "queries": 0, "discharged": 0}
        n_ok = 0
        solver_s = 0.0
        samples = []
        problems = []
        viol = None
        for qr in qs:
            st, out, dt = solve(smt_text(qr), "cvc5", 20)
            solver_s += dt
            if st not in ("sat", "unsat") and qr["id"] in alt:
                # second faithful encoding of the checked arithmetic
                st, out, dt = solve(smt_text(alt[qr["id"]]), "cvc5", 60)
                solver_s += dt
                if st in ("sat", "unsat"):
                    qr = alt[qr["id"]]
            st2, out2, dt2 = solve(smt_text(qr, small=True), "z3", 20)
            solver_s += dt2
            rec = {"query": qr["id"], "claim": qr["desc"], "cvc5_full_u32": st, "z3_dims_below_256": st2, "solver_s": round(dt + dt2, 3)}
            samples.append(rec)
            if st == "unsat" and st2 in ("unsat", "unknown"):
                # z3 (bit-blasting, dimensions below 256) is a cross-check of the encoding: it may time out on the
                # multiplications, but it must never contradict cvc5
                n_ok += 1
                continue
            if st == "sat" or st2 == "sat":
                if st == "sat":
                    _, mout, _ = solve(smt_text(qr, model=True), "cvc5", 120)
                else:
                    _, mout, _ = solve(smt_text(qr, small=True, model=True), "z3", 120)
                vals = mir2smt.model_values(mout, qr["vars"])
                rp = native_replay(vals)
                rec["counterexample"] = vals
                rec["native"] = rp
                if rp.get("ran") and rp.get("reproduced"):
                    path = os.path.join(OUT, "replays", prop, "smt-%s.json" % qr["id"])
                    import json

                    write(path, json.dumps({"kind": "smt", "property": prop, "query": qr["id"], "claim": qr["desc"], "inputs": vals, "native": rp}, indent=1))
                    viol = {"path": path, "detail": "%s: %s; native: %s" % (qr["id"], vals, "; ".join(rp["problems"])), "key": "smt " + qr["id"]}
                else:
                    problems.append("%s: solver counterexample %s %s" % (qr["id"], vals, "did not reproduce natively" if rp.get("ran") else rp.get("why")))
            else:
                problems.append("%s: solvers answered %s / %s" % (qr["id"], st, st2))
        base = {
            "name": name,
            "what": "bytes_per_column, data_bytes, total_bytes, byte_bit_indices executed symbolically from the nightly MIR dump; every path; all u32 width/height/x/y (cvc5 --solve-bv-as-int=sum), cross-checked by z3 bit-blasting for dimensions below 256 (a z3 timeout is tolerated, a disagreement is not)",
            "queries": len(qs),
            "discharged": n_ok,
            "solver_s": round(solver_s, 3),
            "samples": samples,
            "wall_s": round(time.time() - t0, 2),
        }
        if viol:
            base.update({"verdict": "violation", "detail": viol["detail"], "replay": viol["path"], "key": viol["key"]})
        elif problems or n_ok != len(qs):
            base.update({"verdict": "inconclusive", "detail": "; ".join(problems)[:800]})
        else:
            base.update({"verdict": "discharged", "detail": ""})
        return base

    ob.__name__ = "page_arithmetic_" + prop
    return ob
