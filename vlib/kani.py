"""Kani/CBMC driver.

Fast path: `cargo kani --only-codegen` once for all harnesses of a property (the real
crates of the tree under test are compiled by kani-compiler to goto programs), then the
exact goto-cc / goto-instrument / cbmc pipeline of kani-driver 0.68 is replayed per harness
in parallel, with per-loop unwind bounds discovered from `cbmc --show-loops`.  Unwinding
assertions are on (CBMC 6 default), so a too-small bound is reported, never hidden.

Only "every property SUCCESS and every reachability witness SATISFIED" is accepted from
the fast path.  Anything that fails is re-run through `cargo kani` itself with concrete
playback, and the generated test is executed natively before a violation is reported.
"""
import glob
import json
import os
import re
import resource
import shutil
import subprocess
import threading
import time
from concurrent.futures import ThreadPoolExecutor

from .common import BUILD, KANI_VERSION, NCPU, REPO, VERIF, Lock, env_offline, log, read, run, write, write_if_changed

KANI_LIB_C = os.path.expanduser("~/.kani/kani-%s/library/kani/kani_lib.c" % KANI_VERSION)

CBMC_FLAGS = [
    "--no-malloc-may-fail",
    "--no-undefined-shift-check",
    "--no-signed-overflow-check",
    "--nan-check",
    "--no-self-loops-to-assumptions",
    "--no-pointer-primitive-check",
    "--object-bits",
    "16",
    "--sat-solver",
    "cadical",
    "--slice-formula",
]

CRATE_DIR = os.path.join(BUILD, "crate")
TARGET_DIR = os.path.join(BUILD, "target")


class H:
    """Specification of one proof harness (one solver query)."""

    def __init__(
        self,
        name,
        desc,
        tier="quick",
        unwind=2,
        unwindset=(),
        timeout=900,
        mem_gb=12,
        expect_fail=(),
        params=None,
        lemma=None,
        mem_expect=4,
    ):
        self.mem_expect = min(mem_expect, mem_gb)
        self.name = name  # pretty name as kani reports it, e.g. "c04::rt_len1"
        self.desc = desc
        self.tier = tier
        self.unwind = unwind
        self.unwindset = list(unwindset)  # [(regex on loop name or pretty function, bound)]
        self.timeout = timeout
        self.mem_gb = mem_gb
        self.expect_fail = list(expect_fail)  # regexes on "property | description | function"
        self.params = params or {}
        self.lemma = lemma


class HResult:
    def __init__(self, spec):
        self.spec = spec
        self.verdict = "inconclusive"  # discharged | candidate | inconclusive
        self.reason = ""
        self.failed = []  # list of dict(property, description, function, file, line)
        self.covers_sat = []
        self.covers_unsat = []
        self.unsat_covers_violated = []
        self.n_props = 0
        self.n_success = 0
        self.steps = None
        self.vars = None
        self.clauses = None
        self.solver_s = 0.0
        self.symex_s = 0.0
        self.wall_s = 0.0
        self.loops = {}
        self.rss_mb = None
        self.stubbed = False

    def to_json(self):
        return {
            "name": self.spec.name,
            "desc": self.spec.desc,
            "params": self.spec.params,
            "verdict": self.verdict,
            "reason": self.reason,
            "properties_checked": self.n_props,
            "properties_success": self.n_success,
            "failed": self.failed[:10],
            "cover_witnesses_satisfied": self.covers_sat,
            "cover_expected_unsat_held": self.covers_unsat,
            "symex_steps": self.steps,
            "sat_vars": self.vars,
            "sat_clauses": self.clauses,
            "solver_s": round(self.solver_s, 3),
            "symex_s": round(self.symex_s, 3),
            "wall_s": round(self.wall_s, 2),
            "unwind_default": self.spec.unwind,
            "unwindset": self.loops,
        }


# --------------------------------------------------------------------------------------------
# crate generation


def gen_crate(extra_gen=None):
    """(Re)generate build/crate from /verif/harness with path deps on the tree under test."""
    os.makedirs(CRATE_DIR, exist_ok=True)
    src_from = os.path.join(VERIF, "harness", "src")
    src_to = os.path.join(CRATE_DIR, "src")
    os.makedirs(src_to, exist_ok=True)
    wanted = set()
    for d, _, fs in os.walk(src_from):
        for f in fs:
            p = os.path.join(d, f)
            rel = os.path.relpath(p, src_from)
            wanted.add(rel)
            write_if_changed(os.path.join(src_to, rel), read(p))
    if extra_gen:
        for rel, content in extra_gen.items():
            wanted.add(rel)
            write_if_changed(os.path.join(src_to, rel), content)
    for d, _, fs in os.walk(src_to):
        for f in fs:
            rel = os.path.relpath(os.path.join(d, f), src_to)
            if rel not in wanted:
                os.remove(os.path.join(d, f))
    shim = os.path.join(BUILD, "regex-shim")
    manifest = """[package]
name = "fdverif"
version = "0.1.0"
edition = "2021"

[lib]
path = "src/lib.rs"

[dependencies]
flipdot = {{ path = "{repo}" }}
flipdot-core = {{ path = "{repo}/libs/core" }}
flipdot-serial = {{ path = "{repo}/libs/serial" }}
flipdot-testing = {{ path = "{repo}/libs/testing" }}
serial-core = "0.4.0"
regex = {{ path = "{shim}" }}

[patch.crates-io]
regex = {{ path = "{shim}" }}

[workspace]

[lints.rust]
unexpected_cfgs = {{ level = "allow" }}
unused = {{ level = "allow" }}
""".format(repo=REPO, shim=shim)
    write_if_changed(os.path.join(CRATE_DIR, "Cargo.toml"), manifest)
    lock_src = os.path.join(REPO, "Cargo.lock")
    lock_dst = os.path.join(CRATE_DIR, "Cargo.lock")
    if not os.path.exists(lock_dst):
        shutil.copy(lock_src, lock_dst)
    write_if_changed(os.path.join(CRATE_DIR, ".cargo", "config.toml"), "[net]\noffline = true\n")


def codegen(filters, out_dir, stubbing=True):
    """Run kani codegen for all harnesses matching the filters; copy goto binaries to out_dir.

    Returns {pretty_name: {"mangled":..., "goto":...}}.
    """
    cmd = ["cargo", "kani", "--only-codegen", "--no-assertion-reach-checks", "--target-dir", TARGET_DIR]
    if stubbing:
        cmd += ["-Z", "stubbing"]
    for f in filters:
        cmd += ["--harness", f]
    with Lock("cargo"):
        t0 = time.time()
        # remove stale per-invocation outputs of the harness crate only (deps stay cached)
        for d in glob.glob(os.path.join(TARGET_DIR, "kani", "x86_64-unknown-linux-gnu", "debug", "build", "fdverif", "*")):
            shutil.rmtree(d, ignore_errors=True)
        rc, out, dt = run(cmd, cwd=CRATE_DIR, env=env_offline())
        if rc != 0:
            return None, out
        metas = glob.glob(
            os.path.join(TARGET_DIR, "kani", "x86_64-unknown-linux-gnu", "debug", "build", "fdverif", "*", "out", "*.kani-metadata.json")
        )
        if not metas:
            return None, "no kani metadata produced\n" + out
        metas.sort(key=os.path.getmtime)
        meta = json.load(open(metas[-1]))
        if os.path.isdir(out_dir):
            shutil.rmtree(out_dir)
        os.makedirs(out_dir)
        res = {}
        for h in meta["proof_harnesses"]:
            sym = h["goto_file"]
            base = sym[: -len(".symtab.out")]
            linked = base + ".out"
            if not os.path.exists(linked):
                continue
            dst = os.path.join(out_dir, h["pretty_name"].replace("::", "__") + ".out")
            shutil.copy(linked, dst)
            res[h["pretty_name"]] = {"mangled": h["mangled_name"], "goto": dst, "stubs": h["attributes"].get("stubs", [])}
        log("[kani] codegen %d harnesses in %.1fs" % (len(res), time.time() - t0))
        return res, out


# --------------------------------------------------------------------------------------------
# per-harness pipeline


def _limits(mem_gb):
    def f():
        lim = int(mem_gb * (1 << 30))
        resource.setrlimit(resource.RLIMIT_AS, (lim, lim))
        os.setsid()

    return f


def _sh(cmd, timeout, mem_gb, stdout_path=None):
    t0 = time.time()
    try:
        if stdout_path:
            with open(stdout_path, "w") as fo:
                p = subprocess.run(cmd, stdout=fo, stderr=subprocess.PIPE, timeout=timeout, preexec_fn=_limits(mem_gb), text=True, errors="replace")
            return p.returncode, p.stderr or "", time.time() - t0
        p = subprocess.run(cmd, stdout=subprocess.PIPE, stderr=subprocess.STDOUT, timeout=timeout, preexec_fn=_limits(mem_gb), text=True, errors="replace")
        return p.returncode, p.stdout or "", time.time() - t0
    except subprocess.TimeoutExpired:
        # kill the whole process group
        subprocess.run(["pkill", "-f", cmd[-1] if stdout_path is None else cmd[-3]], stderr=subprocess.DEVNULL)
        return -9, "TIMEOUT after %ss" % timeout, time.time() - t0


def prepare_goto(info):
    g = info["goto"]
    steps = [
        ["goto-cc", g, "--function", info["mangled"], "-o", g],
        ["goto-instrument", "--add-library", "--no-malloc-may-fail", g, g],
        [
            "goto-instrument",
            "--generate-function-body-options",
            "assert-false-assume-false",
            "--generate-function-body",
            ".*",
            "--drop-unused-functions",
            g,
            g,
        ],
        ["goto-instrument", "--ensure-one-backedge-per-target", g, g],
    ]
    for s in steps:
        rc, out, _ = _sh(s, 600, 16)
        if rc != 0:
            return False, "%s failed: %s" % (s[0:2], out[-2000:])
    return True, ""


def show_loops(g):
    rc, out, _ = _sh(["cbmc", "--show-loops", "--json-ui", g], 600, 16)
    loops = []
    try:
        data = json.loads(out)
    except Exception:
        return None
    for e in data:
        if isinstance(e, dict) and "loops" in e:
            for l in e["loops"]:
                loops.append((l["name"], l.get("sourceLocation", {}).get("function", ""), l.get("sourceLocation", {}).get("file", "")))
    return loops


def unwindset_for(spec, loops):
    chosen = {}
    for name, func, file in loops:
        for rx, n in spec.unwindset:
            if re.search(rx, name) or re.search(rx, func):
                chosen[name] = n
                break
    # memcmp and friends are library loops that --show-loops may not list under a rust name
    for rx, n in spec.unwindset:
        if rx in ("memcmp", "^memcmp"):
            chosen.setdefault("memcmp.0", n)
    return chosen


def parse_cbmc_json(path, res):
    try:
        data = json.load(open(path))
    except Exception as e:
        res.reason = "cbmc output not parseable: %s" % e
        return False
    got_result = False
    prover_status = None
    for e in data:
        if not isinstance(e, dict):
            continue
        mt = e.get("messageText")
        if mt:
            m = re.search(r"size of program expression: (\d+) steps", mt)
            if m:
                res.steps = int(m.group(1))
            m = re.match(r"(\d+) variables, (\d+) clauses", mt)
            if m:
                res.vars, res.clauses = int(m.group(1)), int(m.group(2))
            m = re.match(r"Runtime Solver: ([\d.e+-]+)s", mt)
            if m:
                res.solver_s += float(m.group(1))
            m = re.match(r"Runtime Symex: ([\d.e+-]+)s", mt)
            if m:
                res.symex_s += float(m.group(1))
            if e.get("messageType") == "ERROR":
                res.reason += "cbmc error: " + mt[:300] + "; "
        if "result" in e:
            got_result = True
            for r in e["result"]:
                pid = r.get("property", "")
                desc = r.get("description", "")
                st = r.get("status")
                loc = r.get("sourceLocation", {}) or {}
                func = loc.get("function", "")
                cls = pid.rsplit(".", 2)[-2] if pid.count(".") >= 2 else ""
                if cls == "reachability_check":
                    continue
                res.n_props += 1
                if cls == "cover":
                    must_unsat = desc.startswith("UNSAT:")
                    if st in ("SATISFIED", "FAILURE"):
                        if must_unsat:
                            res.unsat_covers_violated.append(desc)
                        else:
                            res.covers_sat.append(desc)
                    else:
                        if must_unsat:
                            res.covers_unsat.append(desc)
                        else:
                            res.covers_unsat.append("VACUOUS:" + desc)
                    continue
                if st == "SUCCESS":
                    res.n_success += 1
                else:
                    res.failed.append(
                        {
                            "property": pid,
                            "class": cls,
                            "description": desc,
                            "function": func,
                            "file": loc.get("file", ""),
                            "line": loc.get("line", ""),
                            "status": st,
                        }
                    )
        if "cProverStatus" in e:
            prover_status = e["cProverStatus"]
    if not got_result:
        res.reason += "no result block in cbmc output (status %s)" % prover_status
        return False
    return True


def classify(res):
    spec = res.spec
    unexpected = []
    unwind_fail = []
    for f in res.failed:
        key = "%s | %s | %s" % (f["property"], f["description"], f["function"])
        if f["class"] == "unwind" or "unwinding assertion" in f["description"]:
            unwind_fail.append(f)
            continue
        if any(re.search(rx, key) for rx in spec.expect_fail):
            continue
        unexpected.append(f)
    vacuous = [c for c in res.covers_unsat if c.startswith("VACUOUS:")]
    res.covers_unsat = [c for c in res.covers_unsat if not c.startswith("VACUOUS:")]
    if unwind_fail:
        res.verdict = "inconclusive"
        res.reason += "unwinding assertion failed: " + ", ".join(sorted({f["property"] for f in unwind_fail})[:6])
        return
    if unexpected or res.unsat_covers_violated:
        res.verdict = "candidate"
        res.reason += "failing: " + "; ".join(
            ["%s (%s @%s:%s)" % (f["description"][:100], f["function"][:80], os.path.basename(f["file"]), f["line"]) for f in unexpected[:5]]
            + ["cover expected unsatisfiable was satisfied: " + c for c in res.unsat_covers_violated]
        )
        res.failed = unexpected
        return
    if vacuous:
        res.verdict = "inconclusive"
        res.reason += "reachability witness not satisfied (vacuous?): " + "; ".join(vacuous[:5])
        return
    if not res.covers_sat and not res.covers_unsat:
        res.verdict = "inconclusive"
        res.reason += "harness has no reachability witness"
        return
    res.verdict = "discharged"


def run_harness(spec, info, work):
    res = HResult(spec)
    res.stubbed = bool(info.get("stubs"))
    t0 = time.time()
    try:
        ok, msg = prepare_goto(info)
        if not ok:
            res.reason = msg
            return res
        g = info["goto"]
        loops = show_loops(g)
        if loops is None:
            res.reason = "show-loops failed"
            return res
        uw = unwindset_for(spec, loops)
        res.loops = uw
        cmd = ["cbmc"] + CBMC_FLAGS + ["--unwind", str(spec.unwind)]
        if uw:
            cmd += ["--unwindset", ",".join("%s:%d" % kv for kv in sorted(uw.items()))]
        outp = os.path.join(work, spec.name.replace("::", "__") + ".json")
        cmd += [g, "--verbosity", "9", "--json-ui"]
        write(os.path.join(work, spec.name.replace("::", "__") + ".cmd"), " ".join(cmd) + "\n")
        rc, err, dt = _sh(cmd, spec.timeout, spec.mem_gb, stdout_path=outp)
        if rc == -9:
            res.reason = ("solver time cap hit (%ds)" % spec.timeout) if dt >= spec.timeout - 1 else "solver killed (out of memory?) after %.0fs" % dt
            return res
        if rc not in (0, 10):
            res.reason = "cbmc exit %s (memory cap %dGB?) %s" % (rc, spec.mem_gb, err[-300:])
            # still try to parse, but never accept
            return res
        if not parse_cbmc_json(outp, res):
            return res
        classify(res)
        if res.verdict == "discharged":
            try:
                os.remove(outp)
            except OSError:
                pass
        return res
    finally:
        res.wall_s = time.time() - t0


class MemBudget:
    """Counting semaphore over gigabytes so parallel solver runs cannot exhaust RAM (no swap here)."""

    def __init__(self, total):
        self.total = total
        self.free = total
        self.cv = threading.Condition()

    def acquire(self, n):
        n = min(n, self.total)
        with self.cv:
            while self.free < n:
                self.cv.wait()
            self.free -= n
        return n

    def release(self, n):
        with self.cv:
            self.free += n
            self.cv.notify_all()


def _total_mem_gb():
    try:
        for line in open("/proc/meminfo"):
            if line.startswith("MemAvailable:"):
                return max(8, int(line.split()[1]) // (1 << 20) - 4)
    except OSError:
        pass
    return 32


def run_all(specs, infos, work, jobs=None):
    os.makedirs(work, exist_ok=True)
    jobs = jobs or max(2, min(NCPU, 16))
    results = []
    lock = threading.Lock()
    budget = MemBudget(min(_total_mem_gb(), int(os.environ.get("VERIF_MEM_GB", "56"))))

    def one(spec):
        info = infos.get(spec.name)
        if info is None:
            r = HResult(spec)
            r.reason = "harness not found in kani metadata"
            return r
        got = budget.acquire(spec.mem_expect)
        try:
            r = run_harness(spec, info, work)
        finally:
            budget.release(got)
        with lock:
            log("[cbmc] %-40s %-12s %6.1fs %s" % (spec.name, r.verdict, r.wall_s, r.reason[:160]))
        return r

    # heavy harnesses first so they overlap with the many small ones
    order = sorted(range(len(specs)), key=lambda i: -specs[i].mem_expect)
    with ThreadPoolExecutor(max_workers=jobs) as ex:
        rs = list(ex.map(one, [specs[i] for i in order]))
    results = [None] * len(specs)
    for i, r in zip(order, rs):
        results[i] = r
    return results


# --------------------------------------------------------------------------------------------
# slow path: concrete playback through cargo kani itself


def playback(spec, res, work):
    """Re-run one failing harness through `cargo kani` with concrete playback and execute the
    generated unit test natively (dev profile).  Returns dict(reproduced=bool, test=..., log=...)."""
    pb_crate = os.path.join(BUILD, "crate-pb")
    with Lock("playback"):
        if os.path.isdir(pb_crate):
            shutil.rmtree(pb_crate)
        shutil.copytree(CRATE_DIR, pb_crate, ignore=shutil.ignore_patterns("target"))
        uw = res.loops
        cmd = [
            "cargo",
            "kani",
            "--harness",
            spec.name,
            "--exact",
            "-Z",
            "stubbing",
            "-Z",
            "concrete-playback",
            "--concrete-playback=print",
            "--no-assertion-reach-checks",
            "--target-dir",
            TARGET_DIR + "-pb",
            "-Z",
            "unstable-options",
            "--cbmc-args",
            "--unwind",
            str(spec.unwind),
        ]
        if uw:
            cmd += ["--unwindset", ",".join("%s:%d" % kv for kv in sorted(uw.items()))]
        rc, out, dt = run(cmd, cwd=pb_crate, env=env_offline(), timeout=max(1800, spec.timeout * 3))
        logp = os.path.join(work, spec.name.replace("::", "__") + ".playback.log")
        write(logp, out)
        # collect the printed unit tests for failing checks (not the ones for satisfied covers)
        tests = []
        gen_src = ""
        def norm(t):
            return re.sub(r"[^A-Za-z0-9]+", "", t)[:60]

        wanted = {norm(f["description"]) for f in res.failed}
        for m in re.finditer(r"```\n(.*?)```", out, re.S):
            block = m.group(1)
            chk = re.search(r"/// Check for `(\w+)`: (.*?)\n\s*#\[test\]", block, re.S)
            if chk and chk.group(1) == "cover":
                continue
            if chk and wanted and norm(chk.group(2)) not in wanted and not any(w and w in norm(chk.group(2)) for w in wanted):
                # a check that is expected to fail in this harness (e.g. the documented panic)
                continue
            nm = re.search(r"fn (kani_concrete_playback_\w+)\s*\(", block)
            if not nm:
                continue
            tests.append(nm.group(1))
            body = block[block.index("#[test]"):] if "#[test]" in block else block
            gen_src += body + "\n"
        if tests:
            mod = spec.name.split("::")[0]
            modfile = os.path.join(pb_crate, "src", mod + ".rs")
            write(modfile, read(modfile) + "\n#[cfg(test)]\nmod verif_pb {\n    use super::*;\n" + gen_src + "}\n")
        if not tests:
            kani_failed = "VERIFICATION:- FAILED" in out
            same = [f["description"].strip('"')[:60] for f in res.failed if f["description"].strip('"')[:60] and f["description"].strip('"')[:60] in out]
            if kani_failed and same and res.stubbed and "did not generate unit tests" in out:
                # Kani 0.68 cannot generate playback tests for harnesses that use #[kani::stub]; its own driver
                # (second pipeline: goto-instrument passes, result post-processing) confirms the same failing check
                return {"reproduced": "solver-only", "why": "native playback unavailable for stubbed harnesses (Kani limitation); the failure was confirmed by cargo kani's own run on the same check", "log": logp, "test_src": "", "confirmed_checks": same}
            if "CBMC failed" in out or "run out of memory" in out or "CBMC timed out" in out:
                # cargo kani's playback run (no formula slicing) exhausted memory/time: no native test can be had for
                # this harness; the verdict of the direct CBMC run stands (unwinding assertions and witnesses were fine)
                return {"reproduced": "solver-only", "why": "cargo kani's concrete-playback run of this harness ran out of memory/time, so no native test exists; reported on the direct CBMC verdict", "log": logp, "test_src": ""}
            return {"reproduced": False, "why": "kani produced no concrete playback test (its own verdict: %s)" % ("FAILED" if kani_failed else "not failed"), "log": logp, "test_src": ""}
        reproduced = []
        outputs = []
        for t in tests:
            rc2, out2, _ = run(
                ["cargo", "kani", "playback", "-Z", "concrete-playback", "--", t],
                cwd=pb_crate,
                env=env_offline(),
                timeout=1800,
            )
            outputs.append(out2[-3000:])
            failed_natively = ("test result: FAILED" in out2) or ("panicked at" in out2 and "test result: ok" not in out2)
            reproduced.append((t, failed_natively))
        write(logp, out + "\n\n=== native playback ===\n" + "\n".join(outputs))
        if not any(r for _, r in reproduced) and res.stubbed and "VERIFICATION:- FAILED" in out:
            # the harness replaces a std function by a stub (virtual clock, format): the native build runs the
            # real function instead, so a native pass says nothing; cargo kani's own run confirmed the failure
            return {
                "reproduced": "solver-only",
                "why": "harness uses #[kani::stub]: the native run executes the real function instead of the stub and cannot observe the violation; confirmed by cargo kani's own run",
                "tests": reproduced,
                "test_src": gen_src,
                "native_output": outputs,
                "log": logp,
            }
        return {
            "reproduced": any(r for _, r in reproduced),
            "tests": reproduced,
            "test_src": gen_src,
            "native_output": outputs,
            "log": logp,
        }
