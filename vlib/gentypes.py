"""Re-read the SignType variant list from sign_type.rs so that a newly added type is checked too."""
import os
import re

from .common import REPO, read


def gen_types(tier, seed):
    src = read(os.path.join(REPO, "libs", "core", "src", "sign_type.rs"))
    m = re.search(r"pub enum SignType\s*\{(.*?)\n\}", src, re.S)
    if not m:
        return {"error": "cannot find `pub enum SignType` in sign_type.rs", "files": {"gen_types.rs": "pub const ALL_TYPES: [flipdot_core::SignType; 0] = [];\n"}}
    body = re.sub(r"///.*", "", m.group(1))
    body = re.sub(r"#\[.*?\]", "", body)
    names = re.findall(r"\b([A-Z][A-Za-z0-9_]*)\s*,", body)
    out = "// GENERATED from libs/core/src/sign_type.rs by vlib/gentypes.py\nuse flipdot_core::SignType;\npub const ALL_TYPES: [SignType; %d] = [\n%s];\n" % (
        len(names),
        "".join("    SignType::%s,\n" % n for n in names),
    )
    return {"files": {"gen_types.rs": out}, "info": {"variants": names}}
