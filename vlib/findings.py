"""known_findings.txt: committed, never written at run time.

Lines:
  finding: property=<id> id=<slug> match=<regex on the failing check key> :: <what fails>
  fixed: property=<id> <commit> <what failed>          (suppresses nothing)
"""
import os
import re

from .common import VERIF


def load_findings():
    out = []
    p = os.path.join(VERIF, "known_findings.txt")
    if not os.path.exists(p):
        return out
    for line in open(p):
        line = line.strip()
        if not line.startswith("finding:"):
            continue
        m = re.match(r"finding:\s+property=(\S+)\s+id=(\S+)\s+match=(.+?)\s+::\s+(.*)$", line)
        if m:
            out.append({"property": m.group(1), "id": m.group(2), "rx": m.group(3), "text": m.group(4)})
    return out


def match_finding(findings, pid, key):
    for f in findings:
        if f["property"] == pid and re.search(f["rx"], key):
            return f
    return None
