"""Regenerate MANIFEST.json from the registry (run by hand after adding a property)."""
import json
import os

from .common import VERIF
from .props import PROPS

TEXT = {}


def main():
    ids = [json.loads(l)["id"] for l in open(os.path.join(VERIF, "properties.jsonl"))]
    old = json.load(open(os.path.join(VERIF, "MANIFEST.json")))
    na_old = {e["property_id"]: e["reason"] for e in old.get("not_applicable", [])}
    checks = []
    na = []
    for i in ids:
        if i in PROPS:
            p = PROPS[i]
            checks.append(
                {
                    "property_id": i,
                    "quick_cmd": "./check %s --tier quick" % i,
                    "thorough_cmd": "./check %s --tier thorough" % i,
                    "evidence_file": "evidence/%s.json" % i,
                    "replay_cmd_template": "./check --replay {path}",
                    "engine": "kani-cbmc" + ("+mir2smt" if p.obligations and "smt" in p.technique_extra else ""),
                    "level_claimed": {
                        "category": "model_checking",
                        "text": "Bounded model checking of the real compiled code: " + p.bounds + ". Within these bounds the SAT solver decides the assertions for every input value (not sampled); outside them nothing is claimed: " + p.outside,
                        "design_ref": "DESIGN.md section 6 (%s)" % i,
                    },
                    "level_note": "; ".join(p.assumptions + (["stubs: " + ", ".join(p.stubs)] if p.stubs else [])),
                    "technique": "solver-based bounded model checking of the compiled Rust (Kani 0.68 / CBMC 6.11 / CaDiCaL; symbolic inputs, unwinding assertions on)" + p.technique_extra,
                }
            )
        else:
            na.append({"property_id": i, "reason": na_old.get(i, "check not built yet")})
    m = {
        "version": 1,
        "setup_cmd": "./check --setup",
        "hooks": old["hooks"],
        "engines": [
            {"name": "kani-cbmc", "path": "vlib/kani.py", "serves_properties": sorted(PROPS), "kind_free_text": "Kani 0.68 codegen of the tree under test + CBMC 6.11 bounded model checking with per-loop unwind bounds"},
        ],
        "checks": checks,
        "not_applicable": na,
        "notes": "exit 0 = all queries of the tier discharged; exit 1 = replay-confirmed violation (VIOLATION line); exit 2 = inconclusive (cap hit, unwinding assertion, unsupported regex syntax, non-reproducing counterexample) - never counted as success",
    }
    json.dump(m, open(os.path.join(VERIF, "MANIFEST.json"), "w"), indent=1)
    print("claimed:", [c["property_id"] for c in checks])


if __name__ == "__main__":
    main()
