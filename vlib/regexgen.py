"""Extract the frame pattern from libs/core/src/frame.rs and specialise a matcher to it.

The `regex` crate cannot be executed symbolically here (kani-compiler ICE, see DESIGN.md), but
the *pattern* is the repository's code.  This module parses the subset of regex syntax listed
below into an AST and emits straight-line Rust (one function per AST node, continuation-passing,
leftmost-first backtracking exactly as the crate documents it).  Anything outside the subset is
reported as unsupported and the check becomes inconclusive -- never a pass.

Subset: (?x) verbose mode, ^ $ (non-multiline), ASCII literals and escapes, [...] classes with
ranges and POSIX names (non-negated), capturing / named / non-capturing groups, alternation,
greedy and lazy ? * + {n} {n,} {n,m}.  Unbounded repetition is supported for bodies of fixed
width without captures or alternation (loops); bounded repetition for any body (unrolled).
"""
import os
import re

from .common import REPO, read


class Unsupported(Exception):
    pass


# ---------------------------------------------------------------------------------------------
# extraction


def extract_pattern(path=None):
    path = path or os.path.join(REPO, "libs", "core", "src", "frame.rs")
    src = read(path)
    ms = list(re.finditer(r'Regex::new\(\s*r(#*)"(.*?)"\1\s*\)', src, re.S))
    if len(ms) != 1:
        ms2 = list(re.finditer(r'Regex::new\(\s*"((?:[^"\\]|\\.)*)"\s*\)', src, re.S))
        if len(ms) == 0 and len(ms2) == 1:
            raise Unsupported("pattern is a non-raw string literal; only raw string literals are handled")
        raise Unsupported("expected exactly one Regex::new(r\"...\") in frame.rs, found %d" % len(ms))
    return ms[0].group(2)


# ---------------------------------------------------------------------------------------------
# AST

POSIX = {
    "alnum": "0-9A-Za-z",
    "alpha": "A-Za-z",
    "digit": "0-9",
    "lower": "a-z",
    "upper": "A-Z",
    "xdigit": "0-9A-Fa-f",
    "space": "\t\n\v\f\r ",
    "punct": "!-/:-@[-`{-~",
    "word": "0-9A-Za-z_",
    "blank": "\t ",
    "cntrl": "\x00-\x1f\x7f",
    "graph": "!-~",
    "print": " -~",
    "ascii": "\x00-\x7f",
}


def _posix_set(name):
    spec = POSIX[name]
    s = set()
    i = 0
    while i < len(spec):
        if i + 2 < len(spec) and spec[i + 1] == "-":
            for c in range(ord(spec[i]), ord(spec[i + 2]) + 1):
                s.add(c)
            i += 3
        else:
            s.add(ord(spec[i]))
            i += 1
    return s


ESC = {"n": 10, "r": 13, "t": 9, "f": 12, "v": 11, "0": 0, "a": 7}
PERL = {"d": _posix_set("digit"), "s": _posix_set("space") , "w": _posix_set("word")}


class Parser:
    def __init__(self, pat):
        self.p = pat
        self.i = 0
        self.verbose = False
        self.ngroups = 1
        self.names = {0: ""}

    def peek(self):
        return self.p[self.i] if self.i < len(self.p) else None

    def eat(self, c):
        if self.peek() == c:
            self.i += 1
            return True
        return False

    def skip_ws(self):
        if not self.verbose:
            return
        while self.i < len(self.p):
            c = self.p[self.i]
            if c in " \t\n\r\f\v":
                self.i += 1
            elif c == "#":
                while self.i < len(self.p) and self.p[self.i] != "\n":
                    self.i += 1
            else:
                break

    def parse(self):
        # leading flags
        m = re.match(r"\(\?([a-zA-Z-]+)\)", self.p)
        if m:
            flags = m.group(1)
            for f in flags:
                if f == "x":
                    self.verbose = True
                else:
                    raise Unsupported("flag %r" % f)
            self.i = m.end()
        node = self.alt()
        self.skip_ws()
        if self.i != len(self.p):
            raise Unsupported("trailing input at %d: %r" % (self.i, self.p[self.i : self.i + 10]))
        return node

    def alt(self):
        branches = [self.concat()]
        while True:
            self.skip_ws()
            if self.eat("|"):
                branches.append(self.concat())
            else:
                break
        return branches[0] if len(branches) == 1 else ("alt", branches)

    def concat(self):
        items = []
        while True:
            self.skip_ws()
            c = self.peek()
            if c is None or c in "|)":
                break
            atom = self.atom()
            atom = self.quant(atom)
            items.append(atom)
        return ("cat", items)

    def quant(self, atom):
        while True:
            self.skip_ws()
            c = self.peek()
            if c in ("*", "+", "?"):
                self.i += 1
                lo, hi = {"*": (0, None), "+": (1, None), "?": (0, 1)}[c]
            elif c == "{":
                m = re.match(r"\{(\d+)(,(\d*))?\}", self.p[self.i :])
                if not m:
                    raise Unsupported("bad counted repetition")
                self.i += m.end()
                lo = int(m.group(1))
                if m.group(2) is None:
                    hi = lo
                elif m.group(3) == "":
                    hi = None
                else:
                    hi = int(m.group(3))
            else:
                return atom
            greedy = True
            if self.peek() == "?":
                self.i += 1
                greedy = False
            if atom[0] in ("start", "end"):
                raise Unsupported("quantified anchor")
            atom = ("rep", atom, lo, hi, greedy)

    def atom(self):
        c = self.peek()
        if c == "(":
            self.i += 1
            cap = None
            if self.eat("?"):
                if self.eat(":"):
                    cap = -1
                elif self.peek() == "P" or self.peek() == "<":
                    if self.peek() == "P":
                        self.i += 1
                    if not self.eat("<"):
                        raise Unsupported("group syntax")
                    j = self.p.index(">", self.i)
                    name = self.p[self.i : j]
                    self.i = j + 1
                    cap = self.ngroups
                    self.names[cap] = name
                    self.ngroups += 1
                else:
                    raise Unsupported("group flags / look-around")
            else:
                cap = self.ngroups
                self.names[cap] = ""
                self.ngroups += 1
            inner = self.alt()
            if not self.eat(")"):
                raise Unsupported("unbalanced parenthesis")
            return ("group", cap, inner)
        if c == "[":
            return self.cls()
        if c == "^":
            self.i += 1
            return ("start",)
        if c == "$":
            self.i += 1
            return ("end",)
        if c == ".":
            raise Unsupported("'.' (matches a Unicode scalar value in bytes::Regex)")
        if c == "\\":
            self.i += 1
            e = self.peek()
            self.i += 1
            if e in ESC:
                return ("set", frozenset([ESC[e]]))
            if e in PERL:
                raise Unsupported("Perl class \\%s is Unicode-aware" % e)
            if e == "x":
                m = re.match(r"([0-9A-Fa-f]{2})", self.p[self.i :])
                if not m:
                    raise Unsupported("\\x escape")
                self.i += 2
                v = int(m.group(1), 16)
                if v > 0x7F:
                    raise Unsupported("non-ASCII literal")
                return ("set", frozenset([v]))
            if e is not None and not e.isalnum():
                return ("set", frozenset([ord(e)]))
            raise Unsupported("escape \\%s" % e)
        if c in "*+?{":
            raise Unsupported("dangling quantifier")
        self.i += 1
        if ord(c) > 0x7F:
            raise Unsupported("non-ASCII literal")
        return ("set", frozenset([ord(c)]))

    def cls(self):
        assert self.eat("[")
        if self.peek() == "^":
            raise Unsupported("negated class (Unicode-aware in bytes::Regex)")
        s = set()
        first = True
        while True:
            c = self.peek()
            if c is None:
                raise Unsupported("unterminated class")
            if c == "]" and not first:
                self.i += 1
                break
            first = False
            if c == "[":
                m = re.match(r"\[:(\^?)(\w+):\]", self.p[self.i :])
                if not m or m.group(2) not in POSIX:
                    raise Unsupported("nested class")
                if m.group(1):
                    raise Unsupported("negated POSIX class")
                s |= _posix_set(m.group(2))
                self.i += m.end()
                continue
            lo = self.cls_char()
            if self.peek() == "-" and self.i + 1 < len(self.p) and self.p[self.i + 1] != "]":
                self.i += 1
                hi = self.cls_char()
                if hi < lo:
                    raise Unsupported("bad range")
                for v in range(lo, hi + 1):
                    s.add(v)
            else:
                s.add(lo)
        return ("set", frozenset(s))

    def cls_char(self):
        c = self.peek()
        self.i += 1
        if c == "\\":
            e = self.peek()
            self.i += 1
            if e in ESC:
                return ESC[e]
            if e in PERL:
                raise Unsupported("Perl class in bracket")
            if e == "x":
                v = int(self.p[self.i : self.i + 2], 16)
                self.i += 2
                if v > 0x7F:
                    raise Unsupported("non-ASCII")
                return v
            return ord(e)
        if self.verbose and c in " \t\n":
            # whitespace inside a class is significant even in verbose mode for the regex crate? it is ignored.
            raise Unsupported("whitespace inside class in verbose mode")
        if ord(c) > 0x7F:
            raise Unsupported("non-ASCII")
        return ord(c)


# ---------------------------------------------------------------------------------------------
# code generation


def fixed_width_simple(node):
    """Return list of sets if node is a capture-free, alternation-free fixed-width sequence."""
    k = node[0]
    if k == "set":
        return [node[1]]
    if k == "cat":
        out = []
        for n in node[1]:
            r = fixed_width_simple(n)
            if r is None:
                return None
            out += r
        return out
    if k == "group" and node[1] == -1:
        return fixed_width_simple(node[2])
    if k == "rep" and node[3] is not None and node[2] == node[3]:
        r = fixed_width_simple(node[1])
        if r is None:
            return None
        return r * node[2]
    return None


def set_expr(s, var):
    vals = sorted(s)
    if not vals:
        return "false"
    ranges = []
    a = b = vals[0]
    for v in vals[1:]:
        if v == b + 1:
            b = v
        else:
            ranges.append((a, b))
            a = b = v
    ranges.append((a, b))
    parts = []
    for a, b in ranges:
        parts.append("%s == %d" % (var, a) if a == b else "(%s >= %d && %s <= %d)" % (var, a, var, b))
    return "(" + " || ".join(parts) + ")"


class Gen:
    def __init__(self, ngroups):
        self.fns = []
        self.n = 0
        self.ngroups = ngroups

    def new(self, body, comment=""):
        name = "n%d" % self.n
        self.n += 1
        self.fns.append(
            "// %s\n#[inline(never)]\nfn %s(b: &[u8], pos: usize, caps: &mut [usize; NSLOTS]) -> bool {\n%s\n}\n" % (comment, name, body)
        )
        return name

    def compile(self, node, k):
        t = node[0]
        if t == "set":
            return self.new(
                "    if pos >= b.len() { return false; }\n    let c = b[pos];\n    if !%s { return false; }\n    %s(b, pos + 1, caps)" % (set_expr(node[1], "c"), k),
                "byte class",
            )
        if t == "cat":
            for n in reversed(node[1]):
                k = self.compile(n, k)
            return k
        if t == "alt":
            fs = [self.compile(n, k) for n in node[1]]
            return self.new("    " + " || ".join("%s(b, pos, caps)" % f for f in fs), "alternation (leftmost first)")
        if t == "start":
            return self.new("    pos == 0 && %s(b, pos, caps)" % k, "^")
        if t == "end":
            return self.new("    pos == b.len() && %s(b, pos, caps)" % k, "$")
        if t == "group":
            cap, inner = node[1], node[2]
            if cap == -1:
                return self.compile(inner, k)
            endf = self.new(
                "    let old = caps[%d];\n    caps[%d] = pos;\n    if %s(b, pos, caps) { return true; }\n    caps[%d] = old;\n    false" % (2 * cap + 1, 2 * cap + 1, k, 2 * cap + 1),
                "end of group %d" % cap,
            )
            innerf = self.compile(inner, endf)
            return self.new(
                "    let old = caps[%d];\n    caps[%d] = pos;\n    if %s(b, pos, caps) { return true; }\n    caps[%d] = old;\n    false" % (2 * cap, 2 * cap, innerf, 2 * cap),
                "start of group %d" % cap,
            )
        if t == "rep":
            _, body, lo, hi, greedy = node
            if hi is None:
                sets = fixed_width_simple(body)
                if sets is None or len(sets) == 0:
                    raise Unsupported("unbounded repetition of a body that is not a fixed-width class sequence")
                w = len(sets)
                conds = " && ".join(set_expr(s, "b[p + %d]" % j) for j, s in enumerate(sets))
                bodyfn = "n%d_body" % self.n
                self.fns.append(
                    "#[inline(never)]\nfn %s(b: &[u8], p: usize) -> bool {\n    if b.len() < %d || p > b.len() - %d { return false; }\n    %s\n}\n" % (bodyfn, w, w, conds)
                )
                if greedy:
                    star = self.new(
                        "    let mut n: usize = 0;\n    while %s(b, pos + n * %d) { n += 1; }\n    loop {\n        if %s(b, pos + n * %d, caps) { return true; }\n        if n == 0 { return false; }\n        n -= 1;\n    }"
                        % (bodyfn, w, k, w),
                        "greedy unbounded repetition, body width %d" % w,
                    )
                else:
                    star = self.new(
                        "    let mut n: usize = 0;\n    loop {\n        if %s(b, pos + n * %d, caps) { return true; }\n        if !%s(b, pos + n * %d) { return false; }\n        n += 1;\n    }" % (k, w, bodyfn, w),
                        "lazy unbounded repetition, body width %d" % w,
                    )
                k2 = star
                for _ in range(lo):
                    k2 = self.compile(body, k2)
                return k2
            # bounded: lo mandatory copies, then (hi-lo) nested optionals
            r = k
            for _ in range(hi - lo):
                bf = self.compile(body, r)
                if greedy:
                    r = self.new("    %s(b, pos, caps) || %s(b, pos, caps)" % (bf, k), "optional copy (greedy)")
                else:
                    r = self.new("    %s(b, pos, caps) || %s(b, pos, caps)" % (k, bf), "optional copy (lazy)")
            for _ in range(lo):
                r = self.compile(body, r)
            return r
        raise Unsupported("node " + t)


def starts_anchored(node):
    t = node[0]
    if t == "start":
        return True
    if t == "cat":
        return bool(node[1]) and starts_anchored(node[1][0])
    if t == "group":
        return starts_anchored(node[2])
    if t == "alt":
        return all(starts_anchored(n) for n in node[1])
    return False


def generate(pattern):
    ps = Parser(pattern)
    ast = ps.parse()
    g = Gen(ps.ngroups)
    accept = g.new("    caps[1] = pos;\n    true", "accept: end of overall match")
    root = g.compile(ast, accept)
    anchored = starts_anchored(ast)
    names = [ps.names[i] for i in range(ps.ngroups)]
    hashes = "#" * 4
    out = []
    out.append("// GENERATED by vlib/regexgen.py from the pattern in libs/core/src/frame.rs -- do not edit.\n")
    out.append("pub const PATTERN: &str = r%s\"%s\"%s;\n" % (hashes, pattern, hashes))
    out.append("pub const NGROUPS: usize = %d;\npub const NSLOTS: usize = %d;\npub const NONE: usize = usize::MAX;\n" % (ps.ngroups, 2 * ps.ngroups))
    out.append("pub const GROUP_NAMES: [&str; %d] = [%s];\n" % (ps.ngroups, ", ".join('"%s"' % n for n in names)))
    out.append("pub const START_ANCHORED: bool = %s;\n" % ("true" if anchored else "false"))
    out.extend(g.fns)
    if anchored:
        search = "    *caps = [NONE; NSLOTS];\n    caps[0] = 0;\n    if %s(b, 0, caps) { return true; }\n    *caps = [NONE; NSLOTS];\n    false" % root
    else:
        search = (
            "    let mut start: usize = 0;\n    loop {\n        *caps = [NONE; NSLOTS];\n        caps[0] = start;\n        if %s(b, start, caps) { return true; }\n        if start == b.len() { break; }\n        start += 1;\n    }\n    *caps = [NONE; NSLOTS];\n    false"
            % root
        )
    out.append("/// Leftmost-first search; on success caps holds (start, end) per group or NONE.\npub fn search(b: &[u8], caps: &mut [usize; NSLOTS]) -> bool {\n%s\n}\n" % search)
    return "".join(out), {"ngroups": ps.ngroups, "names": names, "anchored": anchored, "functions": g.n}


if __name__ == "__main__":
    pat = extract_pattern()
    src, info = generate(pat)
    print(src)
    print(info)
