"""Entry point:  ./check <Cnn> [--tier quick|thorough] | --replay <file> | --setup | --selftest"""
import argparse
import json
import os
import re
import sys
import time

from . import kani, regexshim
from .common import BUILD, OUT, REPO, VERIF, log, read, repo_fingerprint, write
from .findings import load_findings, match_finding
from .props import PROPS
from .gentypes import gen_types
from . import genpages, genframes


MAX_PLAYBACK = 2
GLOBAL_GENERATORS = [gen_types, genpages.gen_pages, genframes.gen_frames]


def tier_specs(prop, tier):
    if tier == "thorough":
        return list(prop.harnesses)
    return [h for h in prop.harnesses if h.tier == "quick"]


def write_evidence(pid, tier, seed, prop, results, extra, wall, violations, status):
    harn = [r.to_json() for r in results]
    discharged = [r for r in results if r.verdict == "discharged"]
    n_queries = len(results) + sum(e.get("queries", 0) for e in extra)
    n_disch = len(discharged) + sum(e.get("discharged", 0) for e in extra)
    obligations = sum(r.n_props for r in results) + sum(e.get("queries", 0) for e in extra)
    obl_ok = sum(r.n_success + len(r.covers_sat) + len(r.covers_unsat) for r in discharged) + sum(e.get("discharged", 0) for e in extra)
    samples = []
    for r in results[:40]:
        samples.append(
            {
                "harness": r.spec.name,
                "what_is_symbolic": r.spec.desc,
                "bounds": r.spec.params,
                "verdict": r.verdict,
                "reachability_witnesses": r.covers_sat[:12],
            }
        )
    for e in extra:
        samples.extend(e.get("samples", [])[:10])
    ev = {
        "property_id": pid,
        "tier": tier,
        "seed": seed,
        "level": "model_checking",
        "coverage": {
            "evaluations": n_queries,
            "distinct_nontrivial": n_disch,
            "rule": "one evaluation = one solver query (a Kani/CBMC harness over the compiled code of the tree under test, or one SMT query over its MIR); "
            "it counts as distinct and non-trivial when the solver discharged every assertion of the harness, no unwinding assertion failed, and every "
            "kani::cover! reachability witness of the harness was SATISFIED (so the harness is not vacuous)",
            "samples": samples,
            "obligations": obligations,
            "discharged": obl_ok,
            "exhaustive": False,
            "technique": "bounded model checking: symbolic execution of the compiled Rust (Kani 0.68 -> CBMC 6.11 -> CaDiCaL)" + (prop.technique_extra or ""),
            "functions_encoded": prop.functions,
            "bounds": prop.bounds,
            "outside_bounds": prop.outside,
            "stubs": prop.stubs,
            "harnesses": harn,
            "extra_obligations": extra,
            "queries_discharged": n_disch,
            "queries_total": n_queries,
            "solver_time_s": round(sum(r.solver_s for r in results) + sum(e.get("solver_s", 0) for e in extra), 3),
            "symex_time_s": round(sum(r.symex_s for r in results), 3),
            "status": status,
            "tree_fingerprint": repo_fingerprint(),
            "tree": REPO,
        },
        "assumptions": prop.assumptions,
        "wall_s": round(wall, 2),
        "violations": violations,
    }
    write(os.path.join(OUT, "evidence", pid + ".json"), json.dumps(ev, indent=1))


def run_selftest(work):
    """The deliberately false harness must be classified as a candidate."""
    spec = kani.H("selftest::must_fail", "pipeline self-test (deliberately false)", unwind=2)
    return spec


def check_property(pid, tier, seed, do_playback=True):
    t0 = time.time()
    prop = PROPS[pid]
    work = os.path.join(BUILD, "work", pid + "-" + tier)
    os.makedirs(work, exist_ok=True)
    extra = []
    inconclusive = []
    violations = []
    known = []

    # 1. regenerate everything from the current tree
    gen = {}
    shim_info, shim_err = regexshim.generate_shim()
    if shim_err and prop.needs_regex:
        inconclusive.append(shim_err)
    for g in GLOBAL_GENERATORS + [x for x in prop.generators if x not in GLOBAL_GENERATORS]:
        out = g(tier, seed)
        if out.get("error"):
            if g in prop.generators:
                inconclusive.append("generator %s: %s" % (g.__name__, out["error"]))
        gen.update(out.get("files", {}))
        if out.get("obligation"):
            extra.append(out["obligation"])
    kani.gen_crate(gen)

    # 2. Kani codegen for the property's harnesses (+ the self-test twin)
    specs = tier_specs(prop, tier)
    self_spec = kani.H("selftest::must_fail", "pipeline self-test (deliberately false twin)", unwind=2, timeout=300)
    results = []
    if specs:
        filters = [h.name for h in specs] if len(specs) <= 150 else prop.filters
        infos, out = kani.codegen(filters + ["selftest::"], os.path.join(work, "goto"))
        if infos is None:
            log(out[-6000:])
            inconclusive.append("kani codegen failed (harness crate does not compile against this tree?)")
            write(os.path.join(work, "codegen.log"), out)
        else:
            allr = kani.run_all(specs + [self_spec], infos, work)
            results = allr[:-1]
            st = allr[-1]
            if st.verdict != "candidate":
                inconclusive.append("pipeline self-test did not report the deliberately false harness (%s %s)" % (st.verdict, st.reason))

    # 3. extra (non-Kani) obligations: SMT over MIR etc.
    for ob in prop.obligations:
        o = ob(tier, seed, work)
        extra.append(o)
        if o.get("verdict") == "violation":
            violations.append({"kind": "smt", "name": o["name"], "detail": o.get("detail", ""), "replay": o.get("replay"), "key": o.get("key", o["name"])})
        elif o.get("verdict") != "discharged":
            inconclusive.append("%s: %s" % (o["name"], o.get("detail", "")))

    # 4. triage
    findings = load_findings()
    n_cand = 0
    extra_candidates = []
    for r in results:
        if r.verdict == "inconclusive":
            inconclusive.append("%s: %s" % (r.spec.name, r.reason))
        elif r.verdict == "candidate":
            rp = os.path.join(OUT, "replays", pid, r.spec.name.replace("::", "__") + ".json")
            pb = {"reproduced": None}
            n_cand += 1
            if do_playback and n_cand > MAX_PLAYBACK:
                extra_candidates.append(r.spec.name + ": " + r.reason)
                continue
            if do_playback:
                pb = kani.playback(r.spec, r, work)
            rec = {
                "property": pid,
                "harness": r.spec.name,
                "desc": r.spec.desc,
                "params": r.spec.params,
                "failed_checks": r.failed[:10],
                "unsat_covers_violated": r.unsat_covers_violated,
                "unwind": r.spec.unwind,
                "unwindset": r.loops,
                "playback_test": pb.get("test_src", ""),
                "native_reproduced": pb.get("reproduced"),
                "replay_note": pb.get("why", ""),
                "native_output": pb.get("native_output", []),
                "tree_fingerprint": repo_fingerprint(),
            }
            write(rp, json.dumps(rec, indent=1))
            if do_playback and not pb.get("reproduced"):
                inconclusive.append("%s: solver counterexample did not reproduce natively (%s) -- encoding/stub problem, not reported as a violation" % (r.spec.name, pb.get("why", "test passed")))
                continue
            key_text = " ; ".join("%s | %s | %s" % (f["property"], f["description"], f["function"]) for f in r.failed) + " ; " + r.spec.name
            note = "" if pb.get("reproduced") is True else " [confirmation: %s]" % pb.get("why", "solver verdict")
            violations.append({"kind": "kani", "name": r.spec.name, "detail": r.reason + note, "replay": rp, "key": key_text})

    reported = []
    for v in violations:
        f = match_finding(findings, pid, v["key"])
        if f:
            known.append((f, v))
        else:
            reported.append(v)

    wall = time.time() - t0
    status = "violation" if reported else ("inconclusive" if inconclusive else "holds-within-bounds")
    write_evidence(pid, tier, seed, prop, results, extra, wall, len(reported), status)

    nd = sum(1 for r in results if r.verdict == "discharged") + sum(e.get("discharged", 0) for e in extra)
    nt = len(results) + sum(e.get("queries", 0) for e in extra)
    print("property=%s tier=%s tree=%s queries=%d discharged=%d wall=%.0fs" % (pid, tier, REPO, nt, nd, wall))
    seen = set()
    for f, v in known:
        if f["id"] not in seen:
            seen.add(f["id"])
            print("KNOWN-FINDING: property=%s %s" % (pid, f["text"]))
    for v in reported:
        print("VIOLATION property=%s replay=%s" % (pid, v["replay"]))
        print("  harness=%s %s" % (v["name"], v["detail"][:400]))
    for c in extra_candidates:
        print("  further failing harness (solver counterexample, not replayed natively in this run): %s" % c[:300])
    if extra_candidates and not reported and not known:
        inconclusive.append("failing harnesses were not replayed")
    if reported:
        return 1
    if inconclusive:
        for i in inconclusive:
            print("INCONCLUSIVE property=%s %s" % (pid, i[:500]))
        return 2
    print("OK property=%s holds for every input within the stated bounds (see evidence/%s.json)" % (pid, pid))
    return 0


def replay(path):
    rec = json.load(open(path))
    pid = rec["property"]
    prop = PROPS[pid]
    if rec.get("kind") == "smt":
        from .mir2smt import replay_smt

        return replay_smt(rec)
    hname = rec["harness"]
    spec = [h for h in prop.harnesses if h.name == hname]
    if not spec:
        print("unknown harness", hname)
        return 2
    spec = spec[0]
    work = os.path.join(BUILD, "work", pid + "-replay")
    os.makedirs(work, exist_ok=True)
    gen = {}
    regexshim.generate_shim()
    for g in GLOBAL_GENERATORS + list(prop.generators):
        gen.update(g("quick", 0).get("files", {}))
    kani.gen_crate(gen)
    infos, out = kani.codegen([hname], os.path.join(work, "goto"))
    if infos is None:
        print(out[-3000:])
        return 2
    r = kani.run_all([spec], infos, work)[0]
    print("harness %s: %s %s" % (hname, r.verdict, r.reason))
    if r.verdict == "candidate":
        pb = kani.playback(spec, r, work)
        print(pb.get("test_src", ""))
        for o in pb.get("native_output", []):
            print(o)
        print("native reproduction:", pb.get("reproduced"))
        if pb.get("reproduced"):
            print("VIOLATION property=%s replay=%s" % (pid, path))
            return 1
        return 2
    return 0 if r.verdict == "discharged" else 2


def main():
    ap = argparse.ArgumentParser()
    ap.add_argument("prop", nargs="?")
    ap.add_argument("--tier", default=os.environ.get("VERIF_TIER", "quick"))
    ap.add_argument("--replay")
    ap.add_argument("--setup", action="store_true")
    ap.add_argument("--no-playback", action="store_true")
    a = ap.parse_args()
    seed = int(os.environ.get("VERIF_SEED", "0") or 0)
    if a.setup:
        from .setup import setup

        sys.exit(setup())
    if a.replay:
        sys.exit(replay(a.replay))
    if a.tier not in ("quick", "thorough"):
        a.tier = "quick"
    if a.prop not in PROPS:
        print("unknown property", a.prop, "known:", " ".join(sorted(PROPS)))
        sys.exit(2)
    try:
        rc = check_property(a.prop, a.tier, seed, do_playback=not a.no_playback)
    except Exception:  # an internal error of the machinery is never a verdict
        import traceback

        traceback.print_exc()
        print("INCONCLUSIVE property=%s internal error of the checking machinery (see traceback)" % a.prop)
        rc = 2
    sys.exit(rc)


if __name__ == "__main__":
    main()
