//! Native replay of a page-arithmetic counterexample: prints what the real code does.
use flipdot_core::{Page, PageId};
use std::panic;

fn main() {
    let a: Vec<u64> = std::env::args().skip(1).map(|s| s.parse().unwrap()).collect();
    let (w, h, x, y) = (a[0] as u32, a[1] as u32, a[2] as u32, a[3] as u32);
    panic::set_hook(Box::new(|_| {}));
    let new = panic::catch_unwind(|| Page::new(PageId(7), w, h));
    match new {
        Err(_) => println!("new=panic"),
        Ok(mut p) => {
            println!("new=ok len={}", p.as_bytes().len());
            let before = p.as_bytes().to_vec();
            let r = panic::catch_unwind(panic::AssertUnwindSafe(|| p.set_pixel(x, y, true)));
            match r {
                Err(_) => println!("set=panic"),
                Ok(()) => {
                    let after = p.as_bytes();
                    let diffs: Vec<(usize, u8)> = (0..after.len()).filter(|&i| after[i] != before[i]).map(|i| (i, after[i] ^ before[i])).collect();
                    println!("set=ok diffs={:?}", diffs);
                    let g = panic::catch_unwind(panic::AssertUnwindSafe(|| p.get_pixel(x, y)));
                    println!("get={:?}", g.ok());
                }
            }
        }
    }
}
