//! Native differential validation of the generated matcher against the real `regex` crate,
//! compiled with the very pattern string extracted from frame.rs.
#[path = "../gen/generated.rs"]
#[allow(dead_code)]
mod generated;

use regex::bytes::Regex;

struct Rng(u64);
impl Rng {
    fn next(&mut self) -> u64 {
        self.0 ^= self.0 << 13;
        self.0 ^= self.0 >> 7;
        self.0 ^= self.0 << 17;
        self.0
    }
    fn below(&mut self, n: usize) -> usize {
        (self.next() % n as u64) as usize
    }
}

fn compare(re: &Regex, names: &[Option<String>], s: &[u8], n: &mut u64, matches: &mut u64) -> bool {
    *n += 1;
    let mut caps = [generated::NONE; generated::NSLOTS];
    let got = generated::search(s, &mut caps);
    let want = re.captures(s);
    match (&want, got) {
        (None, false) => true,
        (Some(c), true) => {
            *matches += 1;
            for i in 0..generated::NGROUPS {
                let w = c.get(i).map(|m| (m.start(), m.end()));
                let g = if caps[2 * i] == generated::NONE || caps[2 * i + 1] == generated::NONE { None } else { Some((caps[2 * i], caps[2 * i + 1])) };
                if w != g {
                    println!("MISMATCH spans group {} on {:?}: regex {:?} model {:?}", i, String::from_utf8_lossy(s), w, g);
                    return false;
                }
                if let Some(name) = &names[i] {
                    if generated::GROUP_NAMES[i] != name {
                        println!("MISMATCH group name {}: {:?} vs {:?}", i, name, generated::GROUP_NAMES[i]);
                        return false;
                    }
                }
            }
            true
        }
        _ => {
            println!("MISMATCH match/no-match on {:?}: regex {} model {}", String::from_utf8_lossy(s), want.is_some(), got);
            false
        }
    }
}

fn main() {
    let args: Vec<String> = std::env::args().collect();
    let seed: u64 = args.get(1).and_then(|s| s.parse().ok()).unwrap_or(0);
    let corpus_file = args.get(2).cloned();
    let re = Regex::new(generated::PATTERN).expect("pattern compiles with the real regex crate");
    let names: Vec<Option<String>> = re.capture_names().map(|n| n.map(|s| s.to_string())).collect();
    if names.len() != generated::NGROUPS {
        println!("MISMATCH group count: regex {} model {}", names.len(), generated::NGROUPS);
        std::process::exit(1);
    }
    let mut n = 0u64;
    let mut m = 0u64;
    let mut ok = true;
    // 1. corpus from the repository's own tests (one hex-escaped string per line)
    let mut seeds: Vec<Vec<u8>> = vec![
        b":00000000FF".to_vec(),
        b":01007F02FF7F".to_vec(),
        b":02000201031FD9\r\n".to_vec(),
        b":0400100000155 1F7".to_vec(),
        b":10000000010203040506070809aAbBcCdDeEfF00\r\n".to_vec(),
    ];
    if let Some(f) = corpus_file {
        if let Ok(txt) = std::fs::read_to_string(f) {
            for line in txt.lines() {
                let bytes: Vec<u8> = (0..line.len() / 2).filter_map(|i| u8::from_str_radix(&line[2 * i..2 * i + 2], 16).ok()).collect();
                seeds.push(bytes);
            }
        }
    }
    for s in &seeds {
        ok &= compare(&re, &names, s, &mut n, &mut m);
    }
    // 2. every string over the structural alphabet up to length 5
    let alpha: [u8; 8] = [b':', b'0', b'A', b'f', b'g', b'\r', b'\n', b' '];
    for len in 0..=5usize {
        let total = alpha.len().pow(len as u32);
        for mut k in 0..total {
            let mut s = Vec::with_capacity(len);
            for _ in 0..len {
                s.push(alpha[k % alpha.len()]);
                k /= alpha.len();
            }
            ok &= compare(&re, &names, &s, &mut n, &mut m);
        }
    }
    // 3. every single-byte substitution (all 256 values), deletion, duplication and one-byte
    //    insertion of structural bytes at every position of each seed
    for s in &seeds {
        for i in 0..s.len() {
            for v in 0..=255u8 {
                let mut t = s.clone();
                t[i] = v;
                ok &= compare(&re, &names, &t, &mut n, &mut m);
            }
            let mut t = s.clone();
            t.remove(i);
            ok &= compare(&re, &names, &t, &mut n, &mut m);
            let mut t = s.clone();
            t.insert(i, s[i]);
            ok &= compare(&re, &names, &t, &mut n, &mut m);
        }
        for i in 0..=s.len() {
            for &v in &alpha {
                let mut t = s.clone();
                t.insert(i, v);
                ok &= compare(&re, &names, &t, &mut n, &mut m);
            }
        }
    }
    // 4. seeded random mutation chains
    let mut rng = Rng(0x9E3779B97F4A7C15 ^ seed.wrapping_mul(0x2545F4914F6CDD1D) | 1);
    let pool: &[u8] = b":0123456789abcdefABCDEFgG\r\n \t\x00\xff";
    for _ in 0..30000 {
        let mut t = seeds[rng.below(seeds.len())].clone();
        let k = 1 + rng.below(4);
        for _ in 0..k {
            match rng.below(4) {
                0 if !t.is_empty() => {
                    let i = rng.below(t.len());
                    t[i] = pool[rng.below(pool.len())];
                }
                1 if !t.is_empty() => {
                    let i = rng.below(t.len());
                    t.remove(i);
                }
                2 => {
                    let i = rng.below(t.len() + 1);
                    t.insert(i, pool[rng.below(pool.len())]);
                }
                _ => {
                    let mut u = seeds[rng.below(seeds.len())].clone();
                    t.append(&mut u);
                }
            }
        }
        ok &= compare(&re, &names, &t, &mut n, &mut m);
    }
    println!("compared={} matched={} ok={}", n, m, ok);
    std::process::exit(if ok { 0 } else { 1 });
}
