//! Reference description of the documented frame text (frame.rs "Format Details"):
//! ':' then hex digit pairs (either case) for length(1) address(2) type(1) data(n) checksum(1),
//! then an optional single CRLF, nothing before or after.

#[derive(Debug, Clone, Copy, PartialEq, Eq)]
pub enum Mode {
    Unset,
    /// Run the matcher generated from the repository's pattern.
    Model,
    /// Use the reference shape with this (concrete) end offset of the hex text.
    Contract(usize),
    /// The harness guarantees the input is malformed: no match.
    Reject,
}

static mut MODE: Mode = Mode::Unset;

pub fn set_mode(m: Mode) {
    unsafe { MODE = m }
}
pub fn mode() -> Mode {
    unsafe { MODE }
}

pub fn is_hex(c: u8) -> bool {
    (c >= b'0' && c <= b'9') || (c >= b'a' && c <= b'f') || (c >= b'A' && c <= b'F')
}

/// If `b` has the documented shape, the offset one past the last hex digit (checksum end).
pub fn ref_shape_end(b: &[u8]) -> Option<usize> {
    let l = b.len();
    let crlf = l >= 2 && b[l - 2] == b'\r' && b[l - 1] == b'\n';
    let end = if crlf { l - 2 } else { l };
    // ':' + at least 5 pairs (length, 2 address, type, checksum), whole pairs only
    if end < 11 || (end - 1) % 2 != 0 {
        return None;
    }
    if b[0] != b':' {
        return None;
    }
    let mut i = 1;
    while i < end {
        if !is_hex(b[i]) {
            return None;
        }
        i += 1;
    }
    Some(end)
}

pub const REF_NAMES: [&str; 5] = ["data_len", "address", "message_type", "data", "checksum"];

/// Span of the i-th documented field (0-based, order of REF_NAMES) for a given hex end offset.
pub fn ref_span(i: usize, end: usize) -> (usize, usize) {
    match i {
        0 => (1, 3),
        1 => (3, 7),
        2 => (7, 9),
        3 => (9, end - 2),
        _ => (end - 2, end),
    }
}

pub fn span_by_name(name: &str, end: usize) -> Option<(usize, usize)> {
    let mut i = 0;
    while i < 5 {
        if crate::bytes::str_eq(REF_NAMES[i], name) {
            return Some(ref_span(i, end));
        }
        i += 1;
    }
    None
}

pub fn span_by_index(i: usize, end: usize, len: usize) -> Option<(usize, usize)> {
    match i {
        0 => Some((0, len)),
        1..=5 => Some(ref_span(i - 1, end)),
        _ => None,
    }
}
