//! Drop-in stand-in for the `regex` crate, exposing exactly what flipdot-core's frame.rs uses.
//!
//! * `generated` is regenerated on every check run from the pattern literal in frame.rs.
//! * `contract` is the reference description of the documented frame shape.  Lemma R (property
//!   C03) proves `generated::search` and `contract::ref_shape_end` equivalent, including every
//!   named group's span; the decoder harnesses then run the real `Frame::from_bytes` against
//!   the contract with a *concrete* end offset, which keeps every allocation size concrete.
#![allow(dead_code, static_mut_refs)]

pub mod contract;
pub mod generated;

#[derive(Debug)]
pub struct Error;
impl std::fmt::Display for Error {
    fn fmt(&self, f: &mut std::fmt::Formatter<'_>) -> std::fmt::Result {
        write!(f, "regex error")
    }
}
impl std::error::Error for Error {}

pub mod bytes {
    use super::{contract, generated, Error};

    #[derive(Debug, Clone)]
    pub struct Regex {
        _priv: (),
    }

    #[derive(Debug, Clone, Copy)]
    pub struct Match<'h> {
        hay: &'h [u8],
        start: usize,
        end: usize,
    }

    impl<'h> Match<'h> {
        pub fn as_bytes(&self) -> &'h [u8] {
            &self.hay[self.start..self.end]
        }
        pub fn start(&self) -> usize {
            self.start
        }
        pub fn end(&self) -> usize {
            self.end
        }
    }

    #[derive(Debug, Clone)]
    pub struct Captures<'h> {
        hay: &'h [u8],
        /// Some(end): contract mode, spans given by the documented layout; None: model mode.
        contract_end: Option<usize>,
        caps: [usize; generated::NSLOTS],
    }

    impl<'h> Captures<'h> {
        pub fn name(&self, name: &str) -> Option<Match<'h>> {
            match self.contract_end {
                Some(end) => contract::span_by_name(name, end).map(|(s, e)| Match { hay: self.hay, start: s, end: e }),
                None => {
                    let mut i = 1;
                    while i < generated::NGROUPS {
                        if str_eq(generated::GROUP_NAMES[i], name) {
                            let (s, e) = (self.caps[2 * i], self.caps[2 * i + 1]);
                            if s == generated::NONE || e == generated::NONE {
                                return None;
                            }
                            return Some(Match { hay: self.hay, start: s, end: e });
                        }
                        i += 1;
                    }
                    None
                }
            }
        }
        pub fn get(&self, i: usize) -> Option<Match<'h>> {
            match self.contract_end {
                Some(end) => contract::span_by_index(i, end, self.hay.len()).map(|(s, e)| Match { hay: self.hay, start: s, end: e }),
                None => {
                    if i >= generated::NGROUPS {
                        return None;
                    }
                    let (s, e) = (self.caps[2 * i], self.caps[2 * i + 1]);
                    if s == generated::NONE || e == generated::NONE {
                        return None;
                    }
                    Some(Match { hay: self.hay, start: s, end: e })
                }
            }
        }
    }

    pub(crate) fn str_eq(a: &str, b: &str) -> bool {
        let (a, b) = (a.as_bytes(), b.as_bytes());
        if a.len() != b.len() {
            return false;
        }
        let mut i = 0;
        while i < a.len() {
            if a[i] != b[i] {
                return false;
            }
            i += 1;
        }
        true
    }

    impl Regex {
        pub fn new(pattern: &str) -> Result<Regex, Error> {
            // The matcher is specialised to one pattern; refuse to stand in for any other.
            #[cfg(not(kani))]
            if pattern != generated::PATTERN {
                return Err(Error);
            }
            if pattern.len() != generated::PATTERN.len() {
                return Err(Error);
            }
            Ok(Regex { _priv: () })
        }

        pub fn is_match(&self, hay: &[u8]) -> bool {
            self.captures(hay).is_some()
        }

        pub fn captures<'h>(&self, hay: &'h [u8]) -> Option<Captures<'h>> {
            match contract::mode() {
                contract::Mode::Model => {
                    let mut caps = [generated::NONE; generated::NSLOTS];
                    if generated::search(hay, &mut caps) {
                        Some(Captures { hay, contract_end: None, caps })
                    } else {
                        None
                    }
                }
                contract::Mode::Contract(end) => {
                    // The harness promises: this input is well-shaped and its hex text ends at `end`
                    // (it assumed so for symbolic input; for encoder output it is an obligation).
                    // Checked by the solver, so the decoder below is explored on one path only.
                    assert!(
                        contract::ref_shape_end(hay) == Some(end),
                        "VERIF_SHAPE: text handed to the decoder does not have the documented shape promised by the harness (for encoder output: the encoding is malformed)"
                    );
                    Some(Captures { hay, contract_end: Some(end), caps: [generated::NONE; generated::NSLOTS] })
                }
                contract::Mode::Reject => {
                    // The harness promises: this input does not have the documented shape.
                    assert!(contract::ref_shape_end(hay).is_none(), "VERIF_SHAPE: harness promised a malformed text");
                    None
                }
                contract::Mode::Unset => {
                    assert!(false, "VERIF_CONTRACT_MISUSE: regex stand-in used without selecting a mode");
                    None
                }
            }
        }
    }
}
