//! Proof harnesses for alusch/flipdot, compiled by Kani against the tree under test.
//! Every module is one property; `refmodel` holds the oracles written from the documentation.
#![allow(dead_code, unused_imports, unused_macros, clippy::all)]

pub mod refmodel;

#[cfg(kani)]
#[macro_use]
pub mod util;

#[cfg(kani)]
pub mod gen_types;
#[cfg(kani)]
pub mod symport;
#[cfg(kani)]
pub mod vsign;
#[cfg(kani)]
pub mod frames;
#[cfg(kani)]
mod gen_frames;
#[cfg(kani)]
pub mod pages;
#[cfg(kani)]
mod gen_pages;
#[cfg(kani)]
mod c04;
#[cfg(kani)]
mod c05;
#[cfg(kani)]
pub mod ctl;
#[cfg(kani)]
pub mod ctlrun;
#[cfg(kani)]
mod c08;
#[cfg(kani)]
mod c09;
#[cfg(kani)]
mod c10;
#[cfg(kani)]
mod c11;
#[cfg(kani)]
mod c12;
#[cfg(kani)]
pub mod c13;
#[cfg(kani)]
mod c14;
#[cfg(kani)]
pub mod symio;
#[cfg(kani)]
mod c15;
#[cfg(kani)]
pub mod tapes;
#[cfg(kani)]
mod c16;
#[cfg(kani)]
mod c17;
#[cfg(kani)]
mod c19;
#[cfg(kani)]
mod c20;
#[cfg(kani)]
mod selftest;
