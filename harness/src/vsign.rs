//! Symbolic virtual-sign states (shared by C08, C12, C13, C14, C17, C19).
//!
//! `inv_holds` is the representation invariant of `VirtualSign`: the set of field combinations
//! reachable from `VirtualSign::new` through `process_message` (derived by reading every
//! transition; C12 checks base case and inductive step, so it is itself verified on each run).
use crate::refmodel::ref_total_bytes;
use crate::util::*;
use flipdot_core::{Address, Page, PageFlipStyle, SignType, State};
use flipdot_testing::VirtualSign;

pub use crate::gen_types::ALL_TYPES as SIGN_TYPES;

pub fn any_sign_type_opt() -> Option<SignType> {
    let i: usize = kani::any();
    kani::assume(i <= SIGN_TYPES.len());
    if i == SIGN_TYPES.len() {
        None
    } else {
        Some(SIGN_TYPES[i])
    }
}

pub fn any_flip() -> PageFlipStyle {
    if kani::any() {
        PageFlipStyle::Automatic
    } else {
        PageFlipStyle::Manual
    }
}

fn is_page_state(s: State) -> bool {
    matches!(s, State::PageLoaded | State::PageLoadInProgress | State::PageShown | State::PageShowInProgress)
}

pub fn inv_holds(s: &VirtualSign<'_>) -> bool {
    let (pend, chunks, w, h, flip) = s.verif_parts();
    let st = s.state();
    let np = s.pages().len();
    let pend_empty = pend.is_empty();
    if st == State::Unconfigured && !(pend_empty && chunks == 0 && w == 0 && h == 0 && np == 0 && s.sign_type().is_none()) {
        return false;
    }
    if !pend_empty && !matches!(st, State::PixelsInProgress | State::ReadyToReset) {
        return false;
    }
    if chunks != 0 && !matches!(st, State::ConfigInProgress | State::PixelsInProgress | State::ReadyToReset) {
        return false;
    }
    if np != 0 {
        if matches!(st, State::Unconfigured | State::ConfigInProgress | State::ConfigReceived | State::ConfigFailed) {
            return false;
        }
        if w == 0 || h == 0 {
            return false;
        }
    }
    if st == State::ShowingPages && flip != PageFlipStyle::Automatic {
        return false;
    }
    if is_page_state(st) && flip != PageFlipStyle::Manual {
        return false;
    }
    if w > 1020 || h > 255 {
        return false;
    }
    let mut i = 0;
    while i < np {
        let p = &s.pages()[i];
        if p.width() != w || p.height() != h || p.as_bytes().len() as u64 != ref_total_bytes(w, h) {
            return false;
        }
        i += 1;
    }
    true
}

/// A sign in an arbitrary state satisfying the invariant, with concrete *sizes*:
/// configured dimensions W x H (page size PGB bytes), NP stored pages, PEND pending bytes.
/// Address, flip style, protocol state, chunk counter, recorded type and all bytes are symbolic.
pub fn any_inv_sign<const W: u32, const H: u32, const PGB: usize, const NP: usize, const PEND: usize>(address: Address) -> VirtualSign<'static> {
    assert!(NP == 0 || PGB as u64 == ref_total_bytes(W, H));
    let mut pages = Vec::with_capacity(NP);
    let mut i = 0;
    while i < NP {
        let bytes: [u8; PGB] = kani::any();
        pages.push(Page::from_bytes(W, H, bytes.to_vec()).unwrap());
        i += 1;
    }
    let pend: [u8; PEND] = kani::any();
    let s = VirtualSign::verif_from_parts(address, any_flip(), any_state(), pages, pend.to_vec(), kani::any(), W, H, any_sign_type_opt());
    kani::assume(inv_holds(&s));
    s
}
