//! C13 — the virtual sign implements the sign-side protocol state machine.
//! One-step differential check against `refmodel::ref_sign_step` from ANY invariant state;
//! together with C12's induction this covers every message history.
use crate::refmodel::*;
use crate::util::*;
use crate::vsign::*;
use flipdot_core::{Address, ChunkCount, Data, Message, Offset, PageFlipStyle, SignType, State};
use flipdot_testing::VirtualSign;

pub fn abstract_sign(s: &VirtualSign<'_>) -> RefSign {
    let (pend, chunks, w, h, flip) = s.verif_parts();
    RefSign {
        addr: s.address().0,
        automatic: flip == PageFlipStyle::Automatic,
        state: state_index(s.state()),
        w,
        h,
        chunks,
        pend_len: pend.len(),
        npages: s.pages().len(),
    }
}

pub fn abstract_msg(m: &Message<'_>) -> RefMsg {
    match *m {
        Message::Hello(a) => RefMsg::Hello(a.0),
        Message::QueryState(a) => RefMsg::Query(a.0),
        Message::RequestOperation(a, o) => RefMsg::Request(a.0, op_index(o)),
        Message::DataChunksSent(c) => RefMsg::ChunksSent(c.0),
        Message::PixelsComplete(a) => RefMsg::PixelsComplete(a.0),
        Message::Goodbye(a) => RefMsg::Goodbye(a.0),
        Message::SendData(o, ref d) => {
            let b = d.get();
            let g = |i: usize| if b.len() == 16 { b[i] } else { 0 };
            RefMsg::SendData { offset: o.0, len: b.len(), b0: g(0), b4: g(4), b5: g(5), b6: g(6), b7: g(7), b8: g(8) }
        }
        _ => RefMsg::Other,
    }
}

pub fn reply_matches(got: &Option<Message<'_>>, want: RefReply) -> bool {
    match (got, want) {
        (None, RefReply::None) => true,
        (Some(Message::ReportState(a, st)), RefReply::Report(wa, ws)) => a.0 == wa && state_index(*st) == ws,
        (Some(Message::AckOperation(a, op)), RefReply::Ack(wa, wo)) => a.0 == wa && op_index(*op) == wo,
        _ => false,
    }
}

/// Scalar fields of the real sign equal the model's, modulo the buffer/counter of a sign that is
/// parked in ReadyToReset (they can no longer influence anything observable).
pub fn scalars_match(s: &VirtualSign<'_>, r: &RefSign) -> bool {
    let a = abstract_sign(s);
    let core = a.addr == r.addr && a.automatic == r.automatic && a.state == r.state && a.w == r.w && a.h == r.h && a.npages == r.npages;
    if r.state == 12 {
        core
    } else {
        core && a.chunks == r.chunks && a.pend_len == r.pend_len
    }
}

/// Snapshot of the heap contents for sizes NP <= 1.
pub struct Snap<const PGB: usize, const PEND: usize> {
    pub page0: [u8; PGB],
    pub npages: usize,
    pub pend: [u8; PEND],
    pub ty: Option<SignType>,
}

pub fn snap<const PGB: usize, const PEND: usize>(s: &VirtualSign<'_>) -> Snap<PGB, PEND> {
    let mut page0 = [0u8; PGB];
    if s.pages().len() > 0 {
        let b = s.pages()[0].as_bytes();
        let mut i = 0;
        while i < PGB {
            page0[i] = b[i];
            i += 1;
        }
    }
    let (pend, _, _, _, _) = s.verif_parts();
    let mut p = [0u8; PEND];
    let mut i = 0;
    while i < PEND {
        p[i] = pend[i];
        i += 1;
    }
    Snap { page0, npages: s.pages().len(), pend: p, ty: s.sign_type() }
}

pub fn old_pages_kept<const PGB: usize, const PEND: usize>(s: &VirtualSign<'_>, before: &Snap<PGB, PEND>) -> bool {
    if s.pages().len() < before.npages {
        return false;
    }
    if before.npages > 0 && !bytes_eq(s.pages()[0].as_bytes(), &before.page0) {
        return false;
    }
    true
}

/// Heap contents after the step agree with the effect the model prescribes.
pub fn contents_match<const PGB: usize, const PEND: usize>(
    s: &VirtualSign<'_>,
    before: &Snap<PGB, PEND>,
    pre: &RefSign,
    post: &RefSign,
    eff: RefEffect,
    data: &[u8],
) -> bool {
    let (pend, _, _, _, _) = s.verif_parts();
    let parked = post.state == 12;
    match eff {
        RefEffect::Keep => {
            s.pages().len() == before.npages && old_pages_kept(s, before) && s.sign_type() == before.ty && (parked || bytes_eq(pend, &before.pend))
        }
        RefEffect::Blank => s.pages().is_empty() && pend.is_empty() && s.sign_type().is_none(),
        RefEffect::ClearPages => s.pages().is_empty() && s.sign_type() == before.ty && bytes_eq(pend, &before.pend),
        RefEffect::Configured => {
            s.pages().len() == before.npages && old_pages_kept(s, before) && bytes_eq(pend, &before.pend) && s.sign_type() == SignType::from_bytes(data).ok()
        }
        RefEffect::Append { flush_first } => {
            if s.sign_type() != before.ty || !old_pages_kept(s, before) {
                return false;
            }
            if flush_first {
                let pushed = pending_is_page(pre);
                if s.pages().len() != before.npages + if pushed { 1 } else { 0 } {
                    return false;
                }
                if pushed {
                    let p = &s.pages()[before.npages];
                    if p.width() != pre.w || p.height() != pre.h || !bytes_eq(p.as_bytes(), &before.pend) {
                        return false;
                    }
                }
                bytes_eq(pend, data)
            } else {
                if s.pages().len() != before.npages || pend.len() != PEND + data.len() {
                    return false;
                }
                bytes_eq(&pend[..PEND], &before.pend) && bytes_eq(&pend[PEND..], data)
            }
        }
        RefEffect::Flush => {
            if s.sign_type() != before.ty || !old_pages_kept(s, before) || !pend.is_empty() {
                return false;
            }
            let pushed = pending_is_page(pre);
            if s.pages().len() != before.npages + if pushed { 1 } else { 0 } {
                return false;
            }
            if pushed {
                let p = &s.pages()[before.npages];
                if p.width() != pre.w || p.height() != pre.h || !bytes_eq(p.as_bytes(), &before.pend) {
                    return false;
                }
            }
            true
        }
    }
}

fn check_step<const PGB: usize, const PEND: usize>(s: &mut VirtualSign<'static>, m: &Message<'_>, data: &[u8]) {
    let pre = abstract_sign(s);
    let before = snap::<PGB, PEND>(s);
    let mut model = pre;
    let (want_reply, eff) = ref_sign_step(&mut model, abstract_msg(m));
    let got = s.process_message(m);
    assert!(reply_matches(&got, want_reply), "C13: reply differs from the sign-side state machine");
    assert!(state_index(s.state()) == model.state, "C13: reported state differs from the sign-side state machine");
    assert!(scalars_match(s, &model), "C13: sign fields differ from the sign-side state machine");
    assert!(contents_match::<PGB, PEND>(s, &before, &pre, &model, eff, data), "C13: pages / buffer / type differ from the sign-side state machine");
    kani::cover!(matches!(want_reply, RefReply::None), "silent");
}

pub fn step_plain<const W: u32, const H: u32, const PGB: usize, const NP: usize, const PEND: usize>() {
    let mut s = any_inv_sign::<W, H, PGB, NP, PEND>(Address(kani::any()));
    let m = any_plain_message();
    check_step::<PGB, PEND>(&mut s, &m, &[]);
    kani::cover!(matches!(m, Message::RequestOperation(_, _)), "operation request");
    kani::cover!(matches!(m, Message::RequestOperation(_, _)) && s.state() == State::ReadyToReset, "reset started");
    std::mem::forget(s);
}

pub fn step_data<const W: u32, const H: u32, const PGB: usize, const NP: usize, const PEND: usize, const L: usize>() {
    let mut s = any_inv_sign::<W, H, PGB, NP, PEND>(Address(kani::any()));
    let d: [u8; L] = kani::any();
    let m = Message::SendData(Offset(kani::any()), Data::try_new(&d[..]).unwrap());
    check_step::<PGB, PEND>(&mut s, &m, &d);
    let (_, chunks, _, _, _) = s.verif_parts();
    kani::cover!(chunks != 0, "chunk counted");
    std::mem::forget(s);
}

macro_rules! plain {
    ($name:ident, $w:expr, $h:expr, $pgb:expr, $np:expr, $pend:expr) => {
        #[kani::proof]
        fn $name() {
            step_plain::<$w, $h, $pgb, $np, $pend>();
        }
    };
}
macro_rules! data {
    ($name:ident, $w:expr, $h:expr, $pgb:expr, $np:expr, $pend:expr, $l:expr) => {
        #[kani::proof]
        fn $name() {
            step_data::<$w, $h, $pgb, $np, $pend, $l>();
        }
    };
}

plain!(s0_plain, 0, 0, 0, 0, 0);
plain!(s1_plain, 12, 8, 16, 0, 0);
plain!(s2_plain, 12, 8, 16, 1, 0);
plain!(s3_plain, 12, 8, 16, 0, 16);
plain!(s4_plain, 12, 8, 16, 1, 16);
plain!(s5_plain, 12, 8, 16, 0, 15);
plain!(s6_plain, 12, 8, 16, 0, 17);
plain!(s7_plain, 30, 7, 48, 0, 32);
plain!(s8_plain, 30, 7, 48, 1, 48);
plain!(s9_plain, 300, 7, 304, 0, 0);
plain!(s10_plain, 0, 7, 0, 0, 16);
plain!(s11_plain, 12, 8, 16, 0, 1);
plain!(s12_plain, 12, 8, 16, 0, 32);

data!(s0_d0, 0, 0, 0, 0, 0, 0);
data!(s0_d1, 0, 0, 0, 0, 0, 1);
data!(s0_d15, 0, 0, 0, 0, 0, 15);
data!(s0_d16, 0, 0, 0, 0, 0, 16);
data!(s0_d17, 0, 0, 0, 0, 0, 17);
data!(s0_d255, 0, 0, 0, 0, 0, 255);
data!(s1_d0, 12, 8, 16, 0, 0, 0);
data!(s1_d16, 12, 8, 16, 0, 0, 16);
data!(s1_d17, 12, 8, 16, 0, 0, 17);
data!(s2_d16, 12, 8, 16, 1, 0, 16);
data!(s3_d0, 12, 8, 16, 0, 16, 0);
data!(s3_d1, 12, 8, 16, 0, 16, 1);
data!(s3_d16, 12, 8, 16, 0, 16, 16);
data!(s4_d16, 12, 8, 16, 1, 16, 16);
data!(s5_d1, 12, 8, 16, 0, 15, 1);
data!(s5_d16, 12, 8, 16, 0, 15, 16);
data!(s6_d16, 12, 8, 16, 0, 17, 16);
data!(s7_d16, 30, 7, 48, 0, 32, 16);
data!(s7_d15, 30, 7, 48, 0, 32, 15);
data!(s8_d16, 30, 7, 48, 1, 48, 16);
data!(s9_d16, 300, 7, 304, 0, 0, 16);
data!(s10_d16, 0, 7, 0, 0, 16, 16);
