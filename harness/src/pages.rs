//! C06 / C07 — page pixel operations and native byte layout, one instantiation per concrete size.
//! W, H: dimensions; TB: the padded byte length expected by the documentation (checked against
//! refmodel::ref_total_bytes in every harness, so a wrong TB cannot make a harness pass).
use crate::refmodel::*;
use crate::util::*;
use flipdot_core::{Page, PageError, PageId};

fn ref_pixel(bytes: &[u8], h: u32, x: u32, y: u32) -> bool {
    let b = bytes[ref_byte_index(h, x, y) as usize];
    (b >> ref_bit_index(y)) & 1 == 1
}

/// C06: set_pixel changes exactly the addressed pixel and nothing else (page over ANY byte content).
pub fn c06_set_get<const W: u32, const H: u32, const TB: usize>() {
    assert!(TB as u64 == ref_total_bytes(W, H));
    let buf: [u8; TB] = kani::any();
    let mut page = Page::from_bytes(W, H, &buf[..]).unwrap();
    let x: u32 = kani::any();
    let y: u32 = kani::any();
    let v: bool = kani::any();
    kani::assume(x < W && y < H);
    let x2: u32 = kani::any();
    let y2: u32 = kani::any();
    kani::assume(x2 < W && y2 < H && (x2 != x || y2 != y));
    let other_before = page.get_pixel(x2, y2);
    assert!(other_before == ref_pixel(&buf, H, x2, y2), "C06/C07: get_pixel does not read the documented bit");

    page.set_pixel(x, y, v);

    assert!(page.get_pixel(x, y) == v, "C06: pixel does not read back the value just written");
    assert!(page.get_pixel(x2, y2) == other_before, "C06: writing one pixel changed another pixel");
    assert!(page.id() == PageId(buf[0]) && page.width() == W && page.height() == H, "C06: id or dimensions changed");
    let after = page.as_bytes();
    assert!(after.len() == TB, "C06: byte length changed");
    let bi = ref_byte_index(H, x, y) as usize;
    let mask = 1u8 << ref_bit_index(y);
    let mut i = 0;
    while i < TB {
        if i == bi {
            assert!(after[i] & !mask == buf[i] & !mask, "C06: other bits of the addressed byte changed");
            assert!((after[i] & mask != 0) == v, "C06/C07: the documented bit does not hold the value");
        } else {
            assert!(after[i] == buf[i], "C06: a byte other than the addressed one changed (header, other pixels or padding)");
        }
        i += 1;
    }
    kani::cover!(v && !ref_pixel(&buf, H, x, y), "pixel turned on");
    kani::cover!(!v && ref_pixel(&buf, H, x, y), "pixel turned off");
    std::mem::forget(page);
}

/// C06: out-of-bounds coordinates panic (get and set), never return.
pub fn c06_oob<const W: u32, const H: u32, const TB: usize>() {
    let buf: [u8; TB] = kani::any();
    let mut page = Page::from_bytes(W, H, &buf[..]).unwrap();
    let x: u32 = kani::any();
    let y: u32 = kani::any();
    kani::assume(x >= W || y >= H);
    kani::cover!(x >= W, "x out of range");
    kani::cover!(y >= H, "y out of range");
    kani::cover!(y == H && x == W, "both just past the end");
    let write: bool = kani::any();
    if write {
        page.set_pixel(x, y, kani::any());
    } else {
        let _ = page.get_pixel(x, y);
    }
    must_not_return!("out-of-bounds pixel access returned instead of panicking");
}

/// C06: set_all_pixels makes every pixel read the value, leaves header and padding alone.
pub fn c06_set_all<const W: u32, const H: u32, const TB: usize>() {
    assert!(TB as u64 == ref_total_bytes(W, H));
    let buf: [u8; TB] = kani::any();
    let mut page = Page::from_bytes(W, H, &buf[..]).unwrap();
    let v: bool = kani::any();
    page.set_all_pixels(v);
    let after = page.as_bytes();
    assert!(after.len() == TB, "C06: byte length changed by set_all_pixels");
    let data_end = ref_data_bytes(W, H) as usize;
    let mut i = 0;
    while i < TB {
        if i < 4 || i >= data_end {
            assert!(after[i] == buf[i], "C06: set_all_pixels changed the header or the padding");
        } else {
            assert!(after[i] == if v { 0xFF } else { 0x00 }, "C06: set_all_pixels left a pixel byte with another value");
        }
        i += 1;
    }
    assert!(page.id() == PageId(buf[0]) && page.width() == W && page.height() == H, "C06: id or dimensions changed");
    kani::cover!(v, "all on");
    kani::cover!(!v, "all off");
    std::mem::forget(page);
}

/// C06 (needs at least one pixel): after set_all_pixels every pixel reads the value.
pub fn c06_set_all_reads<const W: u32, const H: u32, const TB: usize>() {
    let buf: [u8; TB] = kani::any();
    let mut page = Page::from_bytes(W, H, &buf[..]).unwrap();
    let v: bool = kani::any();
    page.set_all_pixels(v);
    let x: u32 = kani::any();
    let y: u32 = kani::any();
    kani::assume(x < W && y < H);
    assert!(page.get_pixel(x, y) == v, "C06: a pixel does not read the value given to set_all_pixels");
    kani::cover!(v, "all on");
    std::mem::forget(page);
}

/// C07: a new page is header, zeros, 0xFF padding of the documented lengths.
pub fn c07_new<const W: u32, const H: u32, const TB: usize>() {
    let id: u8 = kani::any();
    let page = Page::new(PageId(id), W, H);
    let b = page.as_bytes();
    assert!(b.len() as u64 == ref_total_bytes(W, H) && b.len() == TB, "C07: new page has the wrong padded length");
    assert!(b.len() % 16 == 0, "C07: page length is not a multiple of 16");
    let data_end = ref_data_bytes(W, H) as usize;
    let mut i = 0;
    while i < TB {
        let want = if i == 0 {
            id
        } else if i == 1 {
            0x10
        } else if i < data_end {
            0x00
        } else {
            0xFF
        };
        assert!(b[i] == want, "C07: new page byte differs from [id,0x10,0,0] + zeros + 0xFF padding");
        i += 1;
    }
    assert!(page.id() == PageId(id) && page.width() == W && page.height() == H, "C07: new page reports wrong id/dimensions");
    kani::cover!(true, "reached");
    std::mem::forget(page);
}

/// C07: on a new page, turning on (x, y) sets exactly bit y%8 of byte 4 + x*ceil(h/8) + y/8.
pub fn c07_new_set<const W: u32, const H: u32, const TB: usize>() {
    let id: u8 = kani::any();
    let mut page = Page::new(PageId(id), W, H);
    let x: u32 = kani::any();
    let y: u32 = kani::any();
    kani::assume(x < W && y < H);
    page.set_pixel(x, y, true);
    let b = page.as_bytes();
    assert!(b.len() == TB);
    let bi = ref_byte_index(H, x, y) as usize;
    assert!(bi >= 4 && (bi as u64) < ref_data_bytes(W, H), "C07: pixel lives outside the data area");
    let data_end = ref_data_bytes(W, H) as usize;
    let mut i = 4;
    while i < data_end {
        let want = if i == bi { 1u8 << (y % 8) } else { 0 };
        assert!(b[i] == want, "C07: pixel stored in the wrong byte or bit (LSB = top row)");
        i += 1;
    }
    kani::cover!(y % 8 == 0, "top bit of a byte");
    std::mem::forget(page);
}

/// C07: from_bytes accepts exactly the padded length, exposes exactly the bytes given,
/// and a page rebuilt from its own bytes equals the original.
pub fn c07_from_bytes<const W: u32, const H: u32, const TB: usize, const CAP: usize>() {
    assert!(CAP == TB + 17 && TB as u64 == ref_total_bytes(W, H));
    let buf: [u8; CAP] = kani::any();
    let n: usize = kani::any();
    kani::assume(n <= CAP);
    let r = Page::from_bytes(W, H, &buf[..n]);
    match &r {
        Ok(p) => {
            assert!(n == TB, "C07: from_bytes accepted a length other than the padded size");
            assert!(p.width() == W && p.height() == H && bytes_eq(p.as_bytes(), &buf[..TB]), "C07: accepted page does not expose exactly the bytes given");
            let again = Page::from_bytes(W, H, p.as_bytes());
            match again {
                Ok(q) => assert!(q == *p, "C07: page rebuilt from its own bytes differs"),
                Err(_) => assert!(false, "C07: a page's own bytes are rejected"),
            }
        }
        Err(PageError::WrongPageLength { width, height, expected, actual }) => {
            assert!(n != TB, "C07: from_bytes rejected the padded size");
            assert!(*width == W && *height == H && *expected == TB && *actual == n, "C07: wrong-length error reports the wrong numbers");
        }
        Err(_) => assert!(false, "C07: unexpected error kind"),
    }
    kani::cover!(r.is_ok(), "accepted");
    kani::cover!(n == TB + 16, "one padding row too many");
    kani::cover!(TB >= 16 && n == TB - 16, "one padding row too few");
    kani::cover!(n == 0, "empty");
    std::mem::forget(r);
}

/// C07: new page rebuilt from its bytes equals itself (owned data path).
pub fn c07_new_roundtrip<const W: u32, const H: u32, const TB: usize>() {
    let page = Page::new(PageId(kani::any()), W, H);
    let copy: Vec<u8> = page.as_bytes().to_vec();
    match Page::from_bytes(W, H, copy) {
        Ok(q) => assert!(q == page, "C07: page built from a new page's bytes differs from it"),
        Err(_) => assert!(false, "C07: bytes of a new page are rejected"),
    }
    kani::cover!(true, "reached");
}

/// C06 sequences: k symbolic set_pixel operations, tracked against a bit model.
pub fn c06_sequence<const W: u32, const H: u32, const TB: usize, const K: usize>() {
    let buf: [u8; TB] = kani::any();
    let mut page = Page::from_bytes(W, H, &buf[..]).unwrap();
    let mut model = buf;
    let mut k = 0;
    while k < K {
        let x: u32 = kani::any();
        let y: u32 = kani::any();
        let v: bool = kani::any();
        kani::assume(x < W && y < H);
        page.set_pixel(x, y, v);
        let bi = ref_byte_index(H, x, y) as usize;
        let mask = 1u8 << ref_bit_index(y);
        if v {
            model[bi] |= mask;
        } else {
            model[bi] &= !mask;
        }
        k += 1;
    }
    assert!(bytes_eq(page.as_bytes(), &model), "C06: a sequence of pixel writes diverged from the bit model");
    kani::cover!(true, "reached");
    std::mem::forget(page);
}
