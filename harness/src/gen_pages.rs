// placeholder; regenerated on every run by vlib/genpages.py
