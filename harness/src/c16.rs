//! C16 / C18 — serial bus: one frame out per message, one frame in exactly when a reply is due;
//! pacing of 30 ms after a data chunk and 100 ms after an in-progress report.
//! Instantiation: SerialSignBus<SerPort<ILEN, WCAP>>.  thread::sleep is replaced by a virtual
//! clock (symio::fake_sleep), so delays are solver-visible values, not wall-clock measurements.
use crate::refmodel::*;
use crate::symio::*;
use crate::util::*;
use flipdot_core::{Address, Data, Frame, Message, MsgType, Offset, SignBus, State};
use flipdot_serial::SerialSignBus;
use regex::contract::{set_mode, Mode};

fn reply_due(m: &Message<'_>) -> bool {
    matches!(m, Message::Hello(_) | Message::QueryState(_) | Message::RequestOperation(_, _))
}

/// Expected wire text of a message: reference encoding of its frame (Frame::from is C04/C05's subject).
fn wire_of<const WL: usize>(m: &Message<'_>) -> ([u8; WL], usize) {
    let f = Frame::from(m.clone());
    let mut out = [0u8; WL];
    let n = f.data().len();
    let tl = 11 + 2 * n;
    ref_encode(f.address().0, f.message_type().0, f.data(), &mut out[..tl]);
    out[tl] = b'\r';
    out[tl + 1] = b'\n';
    std::mem::forget(f);
    (out, tl + 2)
}

pub struct Obs {
    pub reads: u32,
    pub consumed: usize,
    pub written_ok: bool,
    pub sleeps: usize,
    pub sleep_total: u64,
    pub first_sleep_after_write: bool,
    pub sleep_after_read: bool,
}

/// The reply tape holds the encoding of a frame with one data byte (type and byte symbolic, so
/// every 1-byte message incl. unknown ones) + CRLF + 2 stray bytes.
/// The reply tape is a LITERAL line (a symbolic line makes std's read_until fork at every byte and
/// exhausts CBMC); the two stray bytes after it are symbolic.
fn run<const WL: usize>(m: Message<'_>, tape_ix: usize, read_fail_at: u32, write_fail_at: u32) -> (Result<Option<Message<'static>>, ()>, Obs) {
    let mut tape = crate::tapes::TAPES[tape_ix].0;
    tape[15] = kani::any();
    tape[16] = kani::any();
    let (want, wlen) = wire_of::<WL>(&m);
    let port = SerPort::<17, WL>::new(tape, read_fail_at, write_fail_at);
    let mut bus = SerialSignBus::try_new(port).unwrap();
    ev_reset();
    set_mode(Mode::Contract(13));
    let r = bus.process_message(m);
    let p = bus.port();
    let mut written_ok = !p.w.overflow && p.w.len == wlen;
    let mut i = 0;
    while i < wlen && written_ok {
        if p.w.got[i] != want[i] {
            written_ok = false;
        }
        i += 1;
    }
    // sleep log
    let mut sleeps = 0;
    let mut total = 0u64;
    let mut seen_write = false;
    let mut seen_read = false;
    let mut first_sleep_after_write = false;
    let mut sleep_after_read = false;
    let n = if ev_count() < MAX_EV { ev_count() } else { MAX_EV };
    let mut k = 0;
    while k < n {
        let (kind, ms) = ev_get(k);
        if kind == EV_WRITE {
            seen_write = true;
        } else if kind == EV_READ_LF {
            seen_read = true;
        } else if kind == EV_SLEEP {
            if sleeps == 0 && seen_write && !seen_read {
                first_sleep_after_write = true;
            }
            if seen_read {
                sleep_after_read = true;
            }
            sleeps += 1;
            total += ms;
        }
        k += 1;
    }
    let obs = Obs { reads: p.r.calls, consumed: p.r.pos, written_ok, sleeps, sleep_total: total, first_sleep_after_write, sleep_after_read };
    let out = match r {
        Ok(x) => Ok(x),
        Err(e) => {
            std::mem::forget(e);
            Err(())
        }
    };
    std::mem::forget(bus);
    (out, obs)
}

fn check_c16(m_due: bool, r: &Result<Option<Message<'static>>, ()>, o: &Obs, rtype: u8, raddr: u16, rbyte: u8, read_fail: bool, write_fail: bool) {
    if write_fail {
        assert!(r.is_err(), "C16: a write failure was not returned as an error");
        return;
    }
    assert!(o.written_ok, "C16: bytes written to the port are not exactly the message's frame encoding plus CRLF");
    if !m_due {
        assert!(o.reads == 0, "C16: the bus read from the port although no reply is due");
        assert!(matches!(r, Ok(None)), "C16: a message that gets no reply did not return Ok(None)");
        return;
    }
    if read_fail {
        assert!(r.is_err(), "C16: a read failure was returned as a missing or invented reply");
        return;
    }
    assert!(o.consumed == 15, "C16: the bus did not read exactly one line");
    let d = [rbyte];
    let want = Message::from(Frame::new(Address(raddr), MsgType(rtype), Data::try_new(&d[..]).unwrap()));
    match r {
        Ok(Some(got)) => assert!(*got == want, "C16: reply is not the decoding of the line read"),
        _ => assert!(false, "C16: a due reply was not returned"),
    }
    std::mem::forget(want);
}

fn check_c18(is_data: bool, r: &Result<Option<Message<'static>>, ()>, o: &Obs) {
    let in_progress = matches!(r, Ok(Some(Message::ReportState(_, State::PageLoadInProgress))) | Ok(Some(Message::ReportState(_, State::PageShowInProgress))));
    if is_data {
        assert!(o.sleeps == 1 && o.sleep_total >= 30 && o.first_sleep_after_write, "C18: a data chunk was not followed by a pause of at least 30 ms after the write");
    } else if in_progress {
        assert!(o.sleeps == 1 && o.sleep_total >= 100 && o.sleep_after_read, "C18: an in-progress report was not followed by a pause of at least 100 ms after the read");
    } else if r.is_ok() {
        assert!(o.sleeps == 0, "C18: a message / reply that needs no pacing was delayed");
    }
}

/// One message of concrete kind K (parameters symbolic) - a symbolic kind would make the encoded
/// length symbolic, which CBMC cannot handle - against literal reply line T.
fn plain<const C18: bool, const K: u8, const T: usize>() {
    let m = any_message_of_kind::<K>();
    let due = reply_due(&m);
    let (_, raddr, rtype, rbyte) = crate::tapes::TAPES[T];
    let (r, o) = run::<20>(m, T, u32::MAX, u32::MAX);
    if C18 {
        check_c18(false, &r, &o);
    } else {
        check_c16(due, &r, &o, rtype, raddr, rbyte, false, false);
    }
    kani::cover!(r.is_ok() && (due == matches!(r, Ok(Some(_)))), "completed");
    std::mem::forget(r);
}

fn data<const L: usize, const WL: usize, const C18: bool>() {
    let d: [u8; L] = kani::any();
    let m = Message::SendData(Offset(kani::any()), Data::try_new(&d[..]).unwrap());
    let (r, o) = run::<WL>(m, 0, u32::MAX, u32::MAX);
    if C18 {
        check_c18(true, &r, &o);
    } else {
        check_c16(false, &r, &o, 0, 0, 0, false, false);
    }
    kani::cover!(matches!(r, Ok(None)), "sent");
    std::mem::forget(r);
}

macro_rules! plain {
    ($n16:ident, $n18:ident, $k:expr, $t:expr) => {
        #[kani::proof]
        #[kani::stub(std::thread::sleep, crate::symio::fake_sleep)]
        fn $n16() {
            plain::<false, $k, $t>();
        }
        #[kani::proof]
        #[kani::stub(std::thread::sleep, crate::symio::fake_sleep)]
        fn $n18() {
            plain::<true, $k, $t>();
        }
    };
}
// every message kind against one reply line (an acknowledgement)
plain!(c16_k0_t13, c18_k0_t13, 0, 13);
plain!(c16_k1_t13, c18_k1_t13, 1, 13);
plain!(c16_k2_t13, c18_k2_t13, 2, 13);
plain!(c16_k8_t13, c18_k8_t13, 8, 13);
plain!(c16_k10_t13, c18_k10_t13, 10, 13);
plain!(c16_k11_t13, c18_k11_t13, 11, 13);
plain!(c16_k12_t13, c18_k12_t13, 12, 13);
plain!(c16_k13_t13, c18_k13_t13, 13, 13);
plain!(c16_k14_t13, c18_k14_t13, 14, 13);
plain!(c16_k15_t13, c18_k15_t13, 15, 13);
plain!(c16_k9_t13, c18_k9_t13, 9, 13);
plain!(c16_k6_t13, c18_k6_t13, 6, 13);
plain!(c16_k7_t13, c18_k7_t13, 7, 13);
// a state query against every reply line (13 states from two addresses, ack, unknown frame)
plain!(c16_k2_t0, c18_k2_t0, 2, 0);
plain!(c16_k2_t1, c18_k2_t1, 2, 1);
plain!(c16_k2_t2, c18_k2_t2, 2, 2);
plain!(c16_k2_t3, c18_k2_t3, 2, 3);
plain!(c16_k2_t4, c18_k2_t4, 2, 4);
plain!(c16_k2_t5, c18_k2_t5, 2, 5);
plain!(c16_k2_t6, c18_k2_t6, 2, 6);
plain!(c16_k2_t7, c18_k2_t7, 2, 7);
plain!(c16_k2_t8, c18_k2_t8, 2, 8);
plain!(c16_k2_t9, c18_k2_t9, 2, 9);
plain!(c16_k2_t10, c18_k2_t10, 2, 10);
plain!(c16_k2_t11, c18_k2_t11, 2, 11);
plain!(c16_k2_t12, c18_k2_t12, 2, 12);
plain!(c16_k2_t14, c18_k2_t14, 2, 14);
// hello and an operation request against an in-progress report
plain!(c16_k1_t8, c18_k1_t8, 1, 8);
plain!(c16_k12_t10, c18_k12_t10, 12, 10);

macro_rules! data {
    ($n16:ident, $n18:ident, $l:expr) => {
        #[kani::proof]
        #[kani::stub(std::thread::sleep, crate::symio::fake_sleep)]
        fn $n16() {
            data::<$l, { 13 + 2 * $l + 4 }, false>();
        }
        #[kani::proof]
        #[kani::stub(std::thread::sleep, crate::symio::fake_sleep)]
        fn $n18() {
            data::<$l, { 13 + 2 * $l + 4 }, true>();
        }
    };
}
data!(c16_data1, c18_data1, 1);
data!(c16_data4, c18_data4, 4);
data!(c16_data15, c18_data15, 15);
data!(c16_data16, c18_data16, 16);

/// An undecodable reply line is an error, never a missing or invented reply.
#[kani::proof]
#[kani::stub(std::thread::sleep, crate::symio::fake_sleep)]
fn c16_garbage_reply() {
    let mut tape: [u8; 9] = *b"hello\nzzz";
    tape[6] = kani::any();
    tape[7] = kani::any();
    tape[8] = kani::any();
    let m = any_message_of_kind::<2>(); // QueryState
    let port = SerPort::<9, 20>::new(tape, u32::MAX, u32::MAX);
    let mut bus = SerialSignBus::try_new(port).unwrap();
    ev_reset();
    set_mode(Mode::Reject);
    let r = bus.process_message(m);
    assert!(r.is_err(), "C16: an undecodable reply was returned as a missing or invented reply");
    assert!(bus.port().r.pos == 6, "C16: the bus did not read exactly one line");
    kani::cover!(true, "reached");
    std::mem::forget(r);
    std::mem::forget(bus);
}
