//! C01 / C02 / C03 — frame text codec.  Lemma R ties the repository's regex (through the
//! generated matcher) to the reference shape; the other harnesses run the real
//! `Frame::from_bytes` / `to_bytes` with the regex replaced by that (proven-equivalent) shape
//! predicate and a concrete hex end offset, so that every allocation size stays concrete.
use crate::refmodel::*;
use crate::util::*;
use flipdot_core::{Address, Data, Frame, FrameError, MsgType};
use regex::contract::{set_mode, Mode, REF_NAMES};

// ---------------------------------------------------------------------------------- Lemma R
fn group_index(name: &str) -> Option<usize> {
    let mut i = 1;
    while i < regex::generated::NGROUPS {
        if bytes_eq(regex::generated::GROUP_NAMES[i].as_bytes(), name.as_bytes()) {
            return Some(i);
        }
        i += 1;
    }
    None
}

fn lemma_r_on(b: &[u8]) -> bool {
    let mut caps = [regex::generated::NONE; regex::generated::NSLOTS];
    let matched = regex::generated::search(b, &mut caps);
    let shape = ref_shape_end(b);
    assert!(matched == shape.is_some(), "R: the frame pattern accepts a different set of byte strings than the documented shape");
    if let Some(end) = shape {
        assert!(caps[0] == 0 && caps[1] == b.len(), "R: overall match is not the whole input");
        let mut k = 0;
        while k < 5 {
            let gi = group_index(REF_NAMES[k]);
            assert!(gi.is_some(), "R: a documented field has no named group in the pattern");
            let gi = gi.unwrap();
            let (s, e) = regex::contract::ref_span(k, end);
            assert!(caps[2 * gi] == s && caps[2 * gi + 1] == e, "R: a named group does not span the documented field");
            k += 1;
        }
    }
    shape.is_some()
}

/// All byte strings of length 0..=LMAX (length symbolic, every byte symbolic).
pub fn lemma_r_upto<const LMAX: usize>() {
    let buf: [u8; LMAX] = kani::any();
    let n: usize = kani::any();
    kani::assume(n <= LMAX);
    let wf = lemma_r_on(&buf[..n]);
    kani::cover!(wf, "well-formed input");
    kani::cover!(!wf, "malformed input");
    kani::cover!(n == LMAX, "longest");
    kani::cover!(n >= 13 && buf[n - 1] == b'\n' && ref_shape_end(&buf[..n]).is_some(), "well-formed with CRLF");
}

/// All byte strings of exactly L bytes.
pub fn lemma_r_exact<const L: usize>() {
    let buf: [u8; L] = kani::any();
    let wf = lemma_r_on(&buf);
    // (even lengths admit no well-formed text at all, so only the malformed side is a witness here)
    kani::cover!(!wf, "malformed input");
}

// ---------------------------------------------------------------------------------- encoder
/// enc[N]: to_bytes / to_bytes_with_newline equal the reference encoding byte for byte.
pub fn enc<const N: usize, const TL: usize>(owned: bool) {
    assert!(TL == 11 + 2 * N);
    let d: [u8; N] = kani::any();
    let addr: u16 = kani::any();
    let ty: u8 = kani::any();
    let data = if owned { Data::try_new(d.to_vec()).unwrap() } else { Data::try_new(&d[..]).unwrap() };
    let f = Frame::new(Address(addr), MsgType(ty), data);
    let mut want = [0u8; TL];
    ref_encode(addr, ty, &d, &mut want);
    let got = f.to_bytes();
    assert!(got.len() == TL, "C01: encoding has the wrong length");
    let mut i = 0;
    while i < TL {
        assert!(got[i] == want[i], "C01: encoded byte differs from ':' + upper-case hex of length, big-endian address, type, data, LRC");
        i += 1;
    }
    let nl = f.to_bytes_with_newline();
    assert!(nl.len() == TL + 2 && nl[TL] == b'\r' && nl[TL + 1] == b'\n', "C01: newline variant is not the encoding plus CRLF");
    let mut i = 0;
    while i < TL {
        assert!(nl[i] == want[i], "C01: newline variant differs from the plain encoding");
        i += 1;
    }
    kani::cover!(addr > 0xFF && ty > 0x9F, "high address byte and type with letter digits");
    std::mem::forget(f);
}

/// rt[N]: decoding either encoding gives back an equal frame.
pub fn roundtrip<const N: usize>(newline: bool) {
    let d: [u8; N] = kani::any();
    let addr: u16 = kani::any();
    let ty: u8 = kani::any();
    let f = Frame::new(Address(addr), MsgType(ty), Data::try_new(&d[..]).unwrap());
    let bytes = if newline { f.to_bytes_with_newline() } else { f.to_bytes() };
    set_mode(Mode::Contract(11 + 2 * N));
    match Frame::from_bytes(&bytes) {
        Ok(g) => {
            assert!(g.address() == Address(addr) && g.message_type() == MsgType(ty), "C01: decoded frame has a different address or type");
            assert!(bytes_eq(g.data(), &d), "C01: decoded frame has different data");
            assert!(g == f, "C01: decoded frame is not equal to the original");
            std::mem::forget(g);
        }
        Err(e) => {
            std::mem::forget(e);
            assert!(false, "C01: the library's own encoding of a frame does not decode");
        }
    }
    kani::cover!(addr > 0xFF, "address needs the high byte");
    std::mem::forget(f);
}

// ---------------------------------------------------------------------------------- Data length
static ZEROS: [u8; 70000] = [0u8; 70000];

/// Borrowed blocks of every length 0..=70000: accepted iff <= 255.
pub fn data_len_borrowed() {
    let n: usize = kani::any();
    kani::assume(n <= 70000);
    let r = Data::try_new(&ZEROS[..n]);
    match &r {
        Ok(d) => assert!(n <= 255 && d.get().len() == n, "C01: a data block longer than 255 bytes was accepted"),
        Err(FrameError::DataTooLong { max, actual }) => assert!(n > 255 && *max == 255 && *actual == n, "C01: data block rejected wrongly or with wrong numbers"),
        Err(_) => assert!(false, "C01: wrong error kind for an over-long data block"),
    }
    kani::cover!(n == 255 && r.is_ok(), "255 accepted");
    kani::cover!(n == 256 && r.is_err(), "256 rejected");
    kani::cover!(n == 65536 && r.is_err(), "65536 rejected");
    kani::cover!(n == 65791 && r.is_err(), "65791 rejected");
    std::mem::forget(r);
}

/// Owned blocks of concrete length L.
pub fn data_len_owned<const L: usize>() {
    let v = vec![0u8; L];
    let r = Data::try_new(v);
    assert!(r.is_ok() == (L <= 255), "C01: owned data block length check wrong");
    kani::cover!(true, "reached");
    std::mem::forget(r);
}

// ---------------------------------------------------------------------------------- Lemma P
// Real decoder vs reference decoder on every well-shaped text with N data pairs (hex digits of
// both cases symbolic everywhere, so declared length and checksum are arbitrary).  Split into
// five facets because one harness checking everything costs 6M SAT variables even for N = 0.

fn p_input<const LEN: usize>(end: usize) -> [u8; LEN] {
    let b: [u8; LEN] = kani::any();
    kani::assume(ref_shape_end(&b) == Some(end));
    set_mode(Mode::Contract(end));
    b
}

fn class_of(r: &Result<Frame<'_>, FrameError>) -> u8 {
    match r {
        Ok(_) => 0,
        Err(FrameError::FrameDataMismatch { .. }) => 1,
        Err(FrameError::BadChecksum { .. }) => 2,
        Err(_) => 3,
    }
}

/// P1: accept / length mismatch / bad checksum, in that order of precedence.
pub fn p_outcome<const N: usize, const LEN: usize>(crlf: bool) {
    let end = 11 + 2 * N;
    assert!(LEN == end + if crlf { 2 } else { 0 });
    let b = p_input::<LEN>(end);
    let want = match ref_decode(&b) {
        RefDecode::Ok { .. } => 0,
        RefDecode::LenMismatch { .. } => 1,
        RefDecode::BadChecksum { .. } => 2,
        RefDecode::Malformed => 3,
    };
    let got = Frame::from_bytes(&b);
    assert!(class_of(&got) == want, "C02/C03: decoder outcome (accept / length mismatch / bad checksum) differs from the independent parser");
    kani::cover!(want == 0, "accepted");
    kani::cover!(want == 1, "length mismatch");
    kani::cover!(want == 2, "bad checksum");
    std::mem::forget(got);
}

/// P2: an accepted text decodes to the fields the independent parser reads.
pub fn p_ok_fields<const N: usize, const LEN: usize>(crlf: bool) {
    let end = 11 + 2 * N;
    assert!(LEN == end + if crlf { 2 } else { 0 });
    let b = p_input::<LEN>(end);
    let (addr, ty) = match ref_decode(&b) {
        RefDecode::Ok { addr, ty, .. } => (addr, ty),
        _ => {
            kani::assume(false);
            (0, 0)
        }
    };
    let got = Frame::from_bytes(&b);
    match &got {
        Ok(f) => {
            assert!(f.address() == Address(addr) && f.message_type() == MsgType(ty) && f.data().len() == N, "C03: decoded header differs from the independent parser");
            let mut i = 0;
            while i < N {
                assert!(f.data()[i] == ref_pair(&b, 9 + 2 * i), "C03: decoded data differs from the independent parser");
                i += 1;
            }
        }
        Err(_) => assert!(false, "C03: a text with the right shape, length and checksum is rejected"),
    }
    kani::cover!(addr > 0xFF, "address with high byte");
    std::mem::forget(got);
}

/// E (reference pair only): for every accepted text, encoding the decoded fields reproduces the
/// text up to digit case and the terminator.  With P2 (real decoder == reference on accepted
/// texts) and enc (real encoder == reference encoder) this gives the re-encoding clause for the
/// real code without running decoder and encoder in one solver query (which costs 10+ GB).
pub fn lemma_e<const N: usize, const LEN: usize, const TL: usize>(crlf: bool) {
    let end = 11 + 2 * N;
    assert!(TL == end && LEN == end + if crlf { 2 } else { 0 });
    let b: [u8; LEN] = kani::any();
    kani::assume(ref_shape_end(&b) == Some(end));
    let (addr, ty) = match ref_decode(&b) {
        RefDecode::Ok { addr, ty, .. } => (addr, ty),
        _ => {
            kani::assume(false);
            (0, 0)
        }
    };
    let mut d = [0u8; N];
    let mut i = 0;
    while i < N {
        d[i] = ref_pair(&b, 9 + 2 * i);
        i += 1;
    }
    let mut again = [0u8; TL];
    ref_encode(addr, ty, &d, &mut again);
    let mut i = 0;
    while i < TL {
        assert!(again[i] == to_upper_hex(b[i]), "E: reference encode(decode(text)) differs from the text");
        i += 1;
    }
    kani::cover!(b[3] != again[3], "input had a lower-case digit");
}

/// D (reference pair only): the reference encoding of any frame has the documented shape and the
/// reference decoder returns the frame.  With enc and P2 this gives the round trip of the real code.
pub fn lemma_d<const N: usize, const TL: usize, const CAP: usize>(crlf: bool) {
    assert!(TL == 11 + 2 * N && CAP == TL + 2);
    let d: [u8; N] = kani::any();
    let addr: u16 = kani::any();
    let ty: u8 = kani::any();
    let mut e = [0u8; CAP];
    ref_encode(addr, ty, &d, &mut e[..TL]);
    e[TL] = b'\r';
    e[TL + 1] = b'\n';
    let text = if crlf { &e[..CAP] } else { &e[..TL] };
    assert!(ref_shape_end(text) == Some(TL), "D: reference encoding does not have the documented shape");
    match ref_decode(text) {
        RefDecode::Ok { addr: a, ty: t, n } => {
            assert!(a == addr && t == ty && n == N, "D: reference decode(encode(f)) has another header");
            let mut i = 0;
            while i < N {
                assert!(ref_pair(text, 9 + 2 * i) == d[i], "D: reference decode(encode(f)) has other data");
                i += 1;
            }
        }
        _ => assert!(false, "D: reference decoder rejects the reference encoding"),
    }
    // all encoded bytes (length, address, type, data, checksum) sum to 0 mod 256
    let mut sum: u8 = 0;
    let mut i = 1;
    while i < TL {
        sum = sum.wrapping_add(ref_pair(text, i));
        i += 2;
    }
    assert!(sum == 0, "D: encoded bytes do not sum to 0 mod 256");
    kani::cover!(addr > 0xFF, "address with high byte");
}

/// P4: the numbers reported by the two rejection kinds.
pub fn p_err_fields<const N: usize, const LEN: usize>(crlf: bool) {
    let end = 11 + 2 * N;
    assert!(LEN == end + if crlf { 2 } else { 0 });
    let b = p_input::<LEN>(end);
    let want = ref_decode(&b);
    kani::assume(!matches!(want, RefDecode::Ok { .. }));
    let got = Frame::from_bytes(&b);
    match (&got, want) {
        (Err(FrameError::FrameDataMismatch { expected, actual, .. }), RefDecode::LenMismatch { declared, actual: a }) => {
            assert!(*expected == declared && *actual == a, "C03: length-mismatch error does not report declared and actual counts");
        }
        (Err(FrameError::BadChecksum { expected, actual, .. }), RefDecode::BadChecksum { declared, computed }) => {
            assert!(*expected == declared && *actual == computed, "C03: checksum error does not report declared and computed values");
        }
        _ => assert!(false, "C03: rejection kind differs from the independent parser"),
    }
    kani::cover!(matches!(want, RefDecode::LenMismatch { .. }), "length mismatch");
    kani::cover!(matches!(want, RefDecode::BadChecksum { .. }), "bad checksum");
    std::mem::forget(got);
}

/// P5: every rejection carries the offending text.
pub fn p_err_data<const N: usize, const LEN: usize>(crlf: bool) {
    let end = 11 + 2 * N;
    assert!(LEN == end + if crlf { 2 } else { 0 });
    let b = p_input::<LEN>(end);
    kani::assume(!matches!(ref_decode(&b), RefDecode::Ok { .. }));
    let got = Frame::from_bytes(&b);
    match &got {
        Err(FrameError::FrameDataMismatch { data, .. }) | Err(FrameError::BadChecksum { data, .. }) => {
            assert!(data.len() == LEN, "C03: error does not carry the input");
            let mut i = 0;
            while i < LEN {
                assert!(data[i] == b[i], "C03: error does not carry the input");
                i += 1;
            }
        }
        _ => assert!(false, "C03: rejection kind differs from the independent parser"),
    }
    kani::cover!(got.is_err(), "rejected");
    std::mem::forget(got);
}

// ---------------------------------------------------------------------------------- Lemma M
/// Every string of L bytes that does not have the documented shape is rejected as malformed,
/// carrying the input; nothing panics.
pub fn lemma_m<const L: usize>() {
    let b: [u8; L] = kani::any();
    kani::assume(ref_shape_end(&b).is_none());
    set_mode(Mode::Reject);
    let got = Frame::from_bytes(&b);
    match &got {
        Err(FrameError::InvalidFrame { data }) => assert!(bytes_eq(data, &b), "C03: malformed-text error does not carry the input"),
        _ => assert!(false, "C03: a string without the documented shape was not rejected as malformed text"),
    }
    kani::cover!(true, "reached");
    std::mem::forget(got);
}

// ---------------------------------------------------------------------------------- Lemma K
/// Corruption lemma on the reference pair: any single substitution / deletion / duplication /
/// adjacent swap of unequal characters / truncation of a valid encoding is rejected by the
/// reference decoder or decodes to the original frame.
pub fn lemma_k<const N: usize, const TL: usize, const CAP: usize>(crlf: bool) {
    assert!(TL == 11 + 2 * N && CAP == TL + 3);
    let d: [u8; N] = kani::any();
    let addr: u16 = kani::any();
    let ty: u8 = kani::any();
    let mut e = [0u8; CAP];
    ref_encode(addr, ty, &d, &mut e[..TL]);
    let mut len = TL;
    if crlf {
        e[TL] = b'\r';
        e[TL + 1] = b'\n';
        len = TL + 2;
    }
    // the corruption
    let kind: u8 = kani::any();
    kani::assume(kind < 5);
    let p: usize = kani::any();
    kani::assume(p < len);
    let mut c = [0u8; CAP];
    let mut clen = len;
    let mut i = 0;
    match kind {
        0 => {
            // substitution by any other byte value
            let v: u8 = kani::any();
            kani::assume(v != e[p]);
            while i < len {
                c[i] = if i == p { v } else { e[i] };
                i += 1;
            }
        }
        1 => {
            // deletion of character p
            clen = len - 1;
            while i < clen {
                c[i] = if i < p { e[i] } else { e[i + 1] };
                i += 1;
            }
        }
        2 => {
            // duplication of character p
            clen = len + 1;
            while i < clen {
                c[i] = if i <= p { e[i] } else { e[i - 1] };
                i += 1;
            }
        }
        3 => {
            // swap of characters p and p+1, which must differ
            kani::assume(p + 1 < len && e[p] != e[p + 1]);
            while i < len {
                c[i] = if i == p { e[p + 1] } else if i == p + 1 { e[p] } else { e[i] };
                i += 1;
            }
        }
        _ => {
            // truncation to a proper prefix of p characters
            clen = p;
            while i < clen {
                c[i] = e[i];
                i += 1;
            }
        }
    }
    match ref_decode(&c[..clen]) {
        RefDecode::Ok { addr: a2, ty: t2, n } => {
            assert!(a2 == addr && t2 == ty && n == N, "C02: a damaged frame decodes as a different frame (header)");
            let mut i = 0;
            while i < N {
                assert!(ref_pair(&c, 9 + 2 * i) == d[i], "C02: a damaged frame decodes as a different frame (data)");
                i += 1;
            }
            kani::cover!(true, "damage that still decodes to the original (case / terminator)");
        }
        _ => {}
    }
    kani::cover!(kind == 0, "substitution");
    kani::cover!(kind == 3, "swap");
    kani::cover!(kind == 4, "truncation");
}
