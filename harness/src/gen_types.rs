// placeholder; regenerated from libs/core/src/sign_type.rs on every run (vlib/gentypes.py)
use flipdot_core::SignType;
pub const ALL_TYPES: [SignType; 11] = [
    SignType::Max3000Front112x16,
    SignType::Max3000Front98x16,
    SignType::Max3000Side90x7,
    SignType::Max3000Rear30x10,
    SignType::Max3000Rear23x10,
    SignType::Max3000Dash30x7,
    SignType::HorizonFront160x16,
    SignType::HorizonFront140x16,
    SignType::HorizonSide96x8,
    SignType::HorizonRear48x16,
    SignType::HorizonDash40x12,
];
