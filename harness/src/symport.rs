//! Instrumented serial port with symbolic behaviour (C15-C18, C20).
use serial_core::{BaudRate, CharSize, FlowControl, Parity, PortSettings, SerialDevice, StopBits};
use std::io::{self, Read, Write};
use std::time::Duration;

pub fn any_baud() -> BaudRate {
    let k: u8 = kani::any();
    kani::assume(k < 12);
    match k {
        0 => BaudRate::Baud110,
        1 => BaudRate::Baud300,
        2 => BaudRate::Baud600,
        3 => BaudRate::Baud1200,
        4 => BaudRate::Baud2400,
        5 => BaudRate::Baud4800,
        6 => BaudRate::Baud9600,
        7 => BaudRate::Baud19200,
        8 => BaudRate::Baud38400,
        9 => BaudRate::Baud57600,
        10 => BaudRate::Baud115200,
        _ => BaudRate::BaudOther(kani::any()),
    }
}

pub fn any_settings() -> PortSettings {
    let c: u8 = kani::any();
    let p: u8 = kani::any();
    let f: u8 = kani::any();
    kani::assume(c < 4 && p < 3 && f < 3);
    PortSettings {
        baud_rate: any_baud(),
        char_size: match c {
            0 => CharSize::Bits5,
            1 => CharSize::Bits6,
            2 => CharSize::Bits7,
            _ => CharSize::Bits8,
        },
        parity: match p {
            0 => Parity::ParityNone,
            1 => Parity::ParityOdd,
            _ => Parity::ParityEven,
        },
        stop_bits: if kani::any() { StopBits::Stop1 } else { StopBits::Stop2 },
        flow_control: match f {
            0 => FlowControl::FlowNone,
            1 => FlowControl::FlowSoftware,
            _ => FlowControl::FlowHardware,
        },
    }
}

/// Which device operation is made to fail (symbolic): 0 none, 1 read_settings, 2 write_settings, 3 set_timeout.
pub struct CfgPort {
    pub settings: PortSettings,
    pub written_settings: bool,
    pub timeout: Option<Duration>,
    pub fail_op: u8,
    pub calls: u8,
}

impl CfgPort {
    pub fn any() -> Self {
        let fail_op: u8 = kani::any();
        kani::assume(fail_op <= 3);
        CfgPort { settings: any_settings(), written_settings: false, timeout: None, fail_op, calls: 0 }
    }
}

fn dev_err() -> serial_core::Error {
    serial_core::Error::new(serial_core::ErrorKind::NoDevice, "x")
}

impl Read for CfgPort {
    fn read(&mut self, _buf: &mut [u8]) -> io::Result<usize> {
        assert!(false, "port setup must not read");
        Ok(0)
    }
}
impl Write for CfgPort {
    fn write(&mut self, _buf: &[u8]) -> io::Result<usize> {
        assert!(false, "port setup must not write");
        Ok(0)
    }
    fn flush(&mut self) -> io::Result<()> {
        Ok(())
    }
}

impl SerialDevice for CfgPort {
    type Settings = PortSettings;
    fn read_settings(&self) -> serial_core::Result<PortSettings> {
        if self.fail_op == 1 {
            return Err(dev_err());
        }
        Ok(self.settings)
    }
    fn write_settings(&mut self, settings: &PortSettings) -> serial_core::Result<()> {
        self.calls += 1;
        if self.fail_op == 2 {
            return Err(dev_err());
        }
        self.settings = *settings;
        self.written_settings = true;
        Ok(())
    }
    fn timeout(&self) -> Duration {
        self.timeout.unwrap_or(Duration::from_secs(0))
    }
    fn set_timeout(&mut self, t: Duration) -> serial_core::Result<()> {
        self.calls += 1;
        if self.fail_op == 3 {
            return Err(dev_err());
        }
        self.timeout = Some(t);
        Ok(())
    }
    fn set_rts(&mut self, _: bool) -> serial_core::Result<()> {
        Ok(())
    }
    fn set_dtr(&mut self, _: bool) -> serial_core::Result<()> {
        Ok(())
    }
    fn read_cts(&mut self) -> serial_core::Result<bool> {
        Ok(false)
    }
    fn read_dsr(&mut self) -> serial_core::Result<bool> {
        Ok(false)
    }
    fn read_ri(&mut self) -> serial_core::Result<bool> {
        Ok(false)
    }
    fn read_cd(&mut self) -> serial_core::Result<bool> {
        Ok(false)
    }
}

pub fn is_19200_8n1(s: &PortSettings) -> bool {
    s.baud_rate == BaudRate::Baud19200
        && s.char_size == CharSize::Bits8
        && s.parity == Parity::ParityNone
        && s.stop_bits == StopBits::Stop1
        && s.flow_control == FlowControl::FlowNone
}
