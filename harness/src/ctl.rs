//! Reference controller (written from the doc comments of src/sign.rs) and a symbolic bus that
//! checks the real `Sign` against it on line (C09, C10, C11, and the controller half of C08/C17).
use crate::util::*;
use flipdot_core::{Address, ChunkCount, Data, Message, Offset, Operation, SignBus, State};
use std::error::Error;

pub const ST_UNCONFIGURED: u8 = 0;
pub const ST_CONFIG_RECEIVED: u8 = 2;
pub const ST_CONFIG_FAILED: u8 = 3;
pub const ST_PIXELS_RECEIVED: u8 = 5;
pub const ST_PIXELS_FAILED: u8 = 6;
pub const ST_PAGE_LOADED: u8 = 7;
pub const ST_PAGE_LOAD_IN_PROGRESS: u8 = 8;
pub const ST_PAGE_SHOWN: u8 = 9;
pub const ST_PAGE_SHOW_IN_PROGRESS: u8 = 10;
pub const ST_SHOWING_PAGES: u8 = 11;
pub const ST_READY_TO_RESET: u8 = 12;
pub const OP_RECEIVE_CONFIG: u8 = 0;
pub const OP_RECEIVE_PIXELS: u8 = 1;
pub const OP_SHOW_LOADED: u8 = 2;
pub const OP_LOAD_NEXT: u8 = 3;
pub const OP_START_RESET: u8 = 4;
pub const OP_FINISH_RESET: u8 = 5;

#[derive(Debug, Clone, Copy, PartialEq, Eq)]
pub enum Call {
    Configure,
    ConfigureIfNeeded,
    SendPages,
    ShowLoadedPage,
    LoadNextPage,
    ShutDown,
}

/// A reply as far as the protocol distinguishes it.
#[derive(Debug, Clone, Copy, PartialEq, Eq)]
pub enum Rep {
    None,
    Err,
    Report(u16, u8),
    Ack(u16, u8),
    Other,
}

/// The message the controller has to send next.
#[derive(Debug, Clone, Copy, PartialEq, Eq)]
pub enum Exp {
    Hello,
    Query,
    Request(u8),
    Data { item: usize, chunk: usize },
    Count(u16),
    PixelsComplete,
    Goodbye,
    Nothing,
}

#[derive(Debug, Clone, Copy, PartialEq, Eq)]
pub enum Outcome {
    Pending,
    Ok,
    OkManual,
    OkAutomatic,
    Unexpected,
    Bus,
}

#[derive(Debug, Clone, Copy, PartialEq, Eq)]
pub enum Phase {
    CinHello,
    EuHello,
    EuShortFinish,
    EuShortHello,
    EuStart,
    EuHelloReady,
    EuFinish,
    EuHelloBlank,
    TRequest,
    TChunk,
    TCount,
    TQuery,
    SpComplete,
    SpQuery,
    SwQuery,
    SwRequest,
    SdGoodbye,
    Done,
}

#[derive(Debug, Clone, Copy)]
pub struct RefCtl {
    pub own: u16,
    pub call: Call,
    pub phase: Phase,
    pub outcome: Outcome,
    pub attempts: u8,
    pub n_items: usize,
    pub item_len: usize,
    pub item: usize,
    pub chunk: usize,
    pub chunks_sent: u16,
    /// bookkeeping for the invariants of C11
    pub receive_requests: u8,
    pub last_query_was_own_success: bool,
    pub retry_without_own_failure: bool,
    pub polls: u8,
}

impl RefCtl {
    pub fn new(own: u16, call: Call, n_items: usize, item_len: usize) -> Self {
        let phase = match call {
            Call::Configure => Phase::EuHello,
            Call::ConfigureIfNeeded => Phase::CinHello,
            Call::SendPages => Phase::TRequest,
            Call::ShowLoadedPage | Call::LoadNextPage => Phase::SwQuery,
            Call::ShutDown => Phase::SdGoodbye,
        };
        RefCtl {
            own,
            call,
            phase,
            outcome: Outcome::Pending,
            attempts: 1,
            n_items,
            item_len,
            item: 0,
            chunk: 0,
            chunks_sent: 0,
            receive_requests: 0,
            last_query_was_own_success: false,
            retry_without_own_failure: false,
            polls: 0,
        }
    }

    fn transfer_op(&self) -> u8 {
        if self.call == Call::SendPages {
            OP_RECEIVE_PIXELS
        } else {
            OP_RECEIVE_CONFIG
        }
    }
    fn success(&self) -> u8 {
        if self.call == Call::SendPages {
            ST_PIXELS_RECEIVED
        } else {
            ST_CONFIG_RECEIVED
        }
    }
    fn failure(&self) -> u8 {
        if self.call == Call::SendPages {
            ST_PIXELS_FAILED
        } else {
            ST_CONFIG_FAILED
        }
    }
    pub fn chunks_per_item(&self) -> usize {
        (self.item_len + 15) / 16
    }
    fn switch(&self) -> (u8, u8, u8) {
        // (target, trigger, operation)
        if self.call == Call::ShowLoadedPage {
            (ST_PAGE_SHOWN, ST_PAGE_LOADED, OP_SHOW_LOADED)
        } else {
            (ST_PAGE_LOADED, ST_PAGE_SHOWN, OP_LOAD_NEXT)
        }
    }

    pub fn expected(&self) -> Exp {
        match self.phase {
            Phase::CinHello | Phase::EuHello | Phase::EuShortHello | Phase::EuHelloReady | Phase::EuHelloBlank => Exp::Hello,
            Phase::EuShortFinish | Phase::EuFinish => Exp::Request(OP_FINISH_RESET),
            Phase::EuStart => Exp::Request(OP_START_RESET),
            Phase::TRequest => Exp::Request(self.transfer_op()),
            Phase::TChunk => Exp::Data { item: self.item, chunk: self.chunk },
            Phase::TCount => Exp::Count(self.chunks_sent),
            Phase::TQuery | Phase::SpQuery | Phase::SwQuery => Exp::Query,
            Phase::SpComplete => Exp::PixelsComplete,
            Phase::SwRequest => Exp::Request(self.switch().2),
            Phase::SdGoodbye => Exp::Goodbye,
            Phase::Done => Exp::Nothing,
        }
    }

    fn finish(&mut self, o: Outcome) {
        self.outcome = o;
        self.phase = Phase::Done;
    }

    fn begin_transfer(&mut self) {
        self.item = 0;
        self.chunk = 0;
        self.chunks_sent = 0;
        self.phase = Phase::TRequest;
    }

    /// `want` must be the reply, otherwise the call ends with a protocol error.
    fn expect(&mut self, r: Rep, want: Rep, next: Phase) {
        if r == Rep::Err {
            self.finish(Outcome::Bus);
        } else if r == want {
            self.phase = next;
        } else {
            self.finish(Outcome::Unexpected);
        }
    }

    /// Was this reply one the protocol admits at this point (i.e. the call may go on or succeed)?
    pub fn feed(&mut self, r: Rep) {
        let own = self.own;
        match self.phase {
            Phase::CinHello => match r {
                Rep::Err => self.finish(Outcome::Bus),
                Rep::Report(a, s)
                    if a == own
                        && (s == ST_CONFIG_RECEIVED
                            || s == ST_SHOWING_PAGES
                            || s == ST_PAGE_LOADED
                            || s == ST_PAGE_SHOW_IN_PROGRESS
                            || s == ST_PAGE_SHOWN
                            || s == ST_PAGE_LOAD_IN_PROGRESS) =>
                {
                    self.finish(Outcome::Ok)
                }
                _ => self.phase = Phase::EuHello,
            },
            Phase::EuHello => match r {
                Rep::Err => self.finish(Outcome::Bus),
                Rep::Report(a, s) if a == own && s == ST_UNCONFIGURED => self.begin_transfer(),
                Rep::Report(a, s) if a == own && s == ST_READY_TO_RESET => self.phase = Phase::EuShortFinish,
                _ => self.phase = Phase::EuStart,
            },
            Phase::EuShortFinish => self.expect(r, Rep::Ack(own, OP_FINISH_RESET), Phase::EuShortHello),
            Phase::EuShortHello | Phase::EuHelloBlank => {
                self.expect(r, Rep::Report(own, ST_UNCONFIGURED), Phase::TRequest);
                if self.phase == Phase::TRequest {
                    self.begin_transfer();
                }
            }
            Phase::EuStart => self.expect(r, Rep::Ack(own, OP_START_RESET), Phase::EuHelloReady),
            Phase::EuHelloReady => self.expect(r, Rep::Report(own, ST_READY_TO_RESET), Phase::EuFinish),
            Phase::EuFinish => self.expect(r, Rep::Ack(own, OP_FINISH_RESET), Phase::EuHelloBlank),
            Phase::TRequest => {
                self.receive_requests += 1;
                let next = if self.n_items == 0 || self.chunks_per_item() == 0 { Phase::TCount } else { Phase::TChunk };
                self.expect(r, Rep::Ack(own, self.transfer_op()), next);
            }
            Phase::TChunk => {
                self.expect(r, Rep::None, Phase::TChunk);
                if self.phase == Phase::TChunk {
                    self.chunks_sent = self.chunks_sent.wrapping_add(1);
                    self.chunk += 1;
                    if self.chunk >= self.chunks_per_item() {
                        self.chunk = 0;
                        self.item += 1;
                        if self.item >= self.n_items {
                            self.phase = Phase::TCount;
                        }
                    }
                }
            }
            Phase::TCount => self.expect(r, Rep::None, Phase::TQuery),
            Phase::TQuery => {
                self.last_query_was_own_success = r == Rep::Report(own, self.success());
                if r == Rep::Err {
                    self.finish(Outcome::Bus);
                } else if r == Rep::Report(own, self.failure()) && self.attempts < 3 {
                    self.attempts += 1;
                    self.begin_transfer();
                } else if r == Rep::Report(own, self.success()) {
                    if self.call == Call::SendPages {
                        self.phase = Phase::SpComplete;
                    } else {
                        self.finish(Outcome::Ok);
                    }
                } else {
                    self.finish(Outcome::Unexpected);
                }
            }
            Phase::SpComplete => self.expect(r, Rep::None, Phase::SpQuery),
            Phase::SpQuery => match r {
                Rep::Err => self.finish(Outcome::Bus),
                Rep::Report(a, s) if a == own && s == ST_SHOWING_PAGES => self.finish(Outcome::OkAutomatic),
                _ => self.finish(Outcome::OkManual),
            },
            Phase::SwQuery => {
                let (target, trigger, _) = self.switch();
                match r {
                    Rep::Err => self.finish(Outcome::Bus),
                    Rep::Report(a, s) if a == own && (s == ST_SHOWING_PAGES || s == target) => self.finish(Outcome::Ok),
                    Rep::Report(a, s) if a == own && s == trigger => {
                        self.polls += 1;
                        self.phase = Phase::SwRequest
                    }
                    Rep::Report(a, s) if a == own && (s == ST_PAGE_LOAD_IN_PROGRESS || s == ST_PAGE_SHOW_IN_PROGRESS) => self.polls += 1,
                    _ => self.finish(Outcome::Unexpected),
                }
            }
            Phase::SwRequest => {
                let op = self.switch().2;
                self.expect(r, Rep::Ack(own, op), Phase::SwQuery)
            }
            Phase::SdGoodbye => {
                if r == Rep::Err {
                    self.finish(Outcome::Bus)
                } else if r == Rep::None {
                    self.finish(Outcome::Ok)
                } else {
                    self.finish(Outcome::Unexpected)
                }
            }
            Phase::Done => {}
        }
    }
}

pub fn abs_reply(r: &Result<Option<Message<'_>>, ()>) -> Rep {
    match r {
        Err(()) => Rep::Err,
        Ok(None) => Rep::None,
        Ok(Some(Message::ReportState(a, s))) => Rep::Report(a.0, state_index(*s)),
        Ok(Some(Message::AckOperation(a, o))) => Rep::Ack(a.0, op_index(*o)),
        Ok(Some(_)) => Rep::Other,
    }
}

#[derive(Debug)]
pub struct BusErr;
impl std::fmt::Display for BusErr {
    fn fmt(&self, _f: &mut std::fmt::Formatter<'_>) -> std::fmt::Result {
        Ok(())
    }
}
impl Error for BusErr {}

/// Replacement for `alloc::fmt::format` (only the *text* of SignError::UnexpectedResponse is lost).
pub fn no_format(_args: std::fmt::Arguments<'_>) -> String {
    String::new()
}

/// How the bus answers.
#[derive(Debug, Clone, Copy, PartialEq, Eq)]
pub enum Replies {
    /// Protocol-conformant sign; at the state query the result (received / failed) is symbolic.
    Conformant,
    /// Anything at all: no reply, any report/ack from any address, unrelated messages, bus error.
    Arbitrary,
    /// Conformant, except that the answer to every operation request is arbitrary
    /// (so "no chunk before the matching acknowledgement" is exercised, also on retries).
    ConformantAckArbitrary,
}

/// Symbolic bus.  P items of ILEN bytes each are the data the controller is expected to transfer.
pub struct SymBus<const P: usize, const ILEN: usize> {
    pub ctl: RefCtl,
    pub replies: Replies,
    /// assert that each message is exactly the one the reference controller prescribes (C10)
    pub strict: bool,
    /// compare data chunk contents / offsets with the items (C09)
    pub check_data: bool,
    pub items: [[u8; ILEN]; P],
    pub max_polls: u8,
    /// explore only conversations with at most this many transfer attempts (3 = all)
    pub max_attempts: u8,
    /// unrelated replies: false = Hello only, true = Hello, DataChunksSent, SendData
    pub rich: bool,
    /// receive requests actually seen on the bus (independent of the reference controller's view)
    pub requests_seen: u8,
    /// invariants (C11)
    pub dead: bool,
    pub sent_after_dead: bool,
    pub foreign_address_sent: bool,
    pub calls: u32,
}

impl<const P: usize, const ILEN: usize> SymBus<P, ILEN> {
    pub fn new(own: u16, call: Call, items: [[u8; ILEN]; P], replies: Replies, strict: bool, check_data: bool, max_polls: u8) -> Self {
        SymBus {
            ctl: RefCtl::new(own, call, P, ILEN),
            replies,
            strict,
            check_data,
            items,
            max_polls,
            max_attempts: 3,
            rich: true,
            requests_seen: 0,
            dead: false,
            sent_after_dead: false,
            foreign_address_sent: false,
            calls: 0,
        }
    }

    fn matches_expected(&self, m: &Message<'_>, e: Exp) -> bool {
        let own = Address(self.ctl.own);
        match (m, e) {
            (Message::Hello(a), Exp::Hello) => *a == own,
            (Message::QueryState(a), Exp::Query) => *a == own,
            (Message::RequestOperation(a, o), Exp::Request(op)) => *a == own && op_index(*o) == op,
            (Message::PixelsComplete(a), Exp::PixelsComplete) => *a == own,
            (Message::Goodbye(a), Exp::Goodbye) => *a == own,
            (Message::DataChunksSent(c), Exp::Count(n)) => c.0 == n,
            (Message::SendData(_, _), Exp::Data { .. }) => true, // contents checked separately
            _ => false,
        }
    }

    fn data_ok(&self, m: &Message<'_>, e: Exp) -> bool {
        if let (Message::SendData(off, data), Exp::Data { item, chunk }) = (m, e) {
            let start = chunk * 16;
            let len = if ILEN - start < 16 { ILEN - start } else { 16 };
            if off.0 as usize != start || data.get().len() != len {
                return false;
            }
            let d = data.get();
            let mut i = 0;
            while i < len {
                if d[i] != self.items[item][start + i] {
                    return false;
                }
                i += 1;
            }
            true
        } else {
            true
        }
    }

    fn conformant_reply(&self, e: Exp) -> Result<Option<Message<'static>>, ()> {
        let own = Address(self.ctl.own);
        match e {
            Exp::Hello => {
                // a sign in any state, reporting it truthfully enough for the reset dance
                let st = match self.ctl.phase {
                    Phase::EuHelloReady => State::ReadyToReset,
                    Phase::EuShortHello | Phase::EuHelloBlank => State::Unconfigured,
                    _ => any_state(),
                };
                Ok(Some(Message::ReportState(own, st)))
            }
            Exp::Request(op) => Ok(Some(Message::AckOperation(own, OPS[op as usize]))),
            Exp::Data { .. } | Exp::Count(_) | Exp::PixelsComplete | Exp::Goodbye => Ok(None),
            Exp::Query => match self.ctl.phase {
                Phase::TQuery => {
                    let ok: bool = kani::any();
                    let (s, f) = if self.ctl.call == Call::SendPages { (State::PixelsReceived, State::PixelsFailed) } else { (State::ConfigReceived, State::ConfigFailed) };
                    Ok(Some(Message::ReportState(own, if ok { s } else { f })))
                }
                Phase::SpQuery => Ok(Some(Message::ReportState(own, if kani::any() { State::ShowingPages } else { State::PageLoaded }))),
                _ => Ok(Some(Message::ReportState(own, any_state()))),
            },
            Exp::Nothing => Ok(None),
        }
    }

    fn arbitrary_reply(&self) -> Result<Option<Message<'static>>, ()> {
        // Every class of reply the protocol can tell apart: silence, bus error, a state report or an
        // acknowledgement from ANY address with ANY state / operation, and unrelated messages
        // (three representative kinds; the controller treats all other kinds alike).
        let k: u8 = kani::any();
        // lean alphabet: one unrelated kind (Hello); rich: three, incl. a heap-carrying data chunk
        kani::assume(k < if self.rich { 7 } else { 5 });
        let a = Address(kani::any());
        match k {
            0 => Ok(None),
            1 => Err(()),
            2 => Ok(Some(Message::ReportState(a, any_state()))),
            3 => Ok(Some(Message::AckOperation(a, any_op()))),
            4 => Ok(Some(Message::Hello(a))),
            5 => Ok(Some(Message::DataChunksSent(ChunkCount(kani::any())))),
            _ => Ok(Some(Message::SendData(Offset(kani::any()), Data::from(&[0x5A, 0xA5])))),
        }
    }
}

impl<const P: usize, const ILEN: usize> SignBus for SymBus<P, ILEN> {
    fn process_message<'a>(&mut self, m: Message<'_>) -> Result<Option<Message<'a>>, Box<dyn Error + Send + Sync>> {
        self.calls += 1;
        if self.dead {
            self.sent_after_dead = true;
        }
        // every addressed message carries the controller's own address
        if let Some(a) = match m {
            Message::Hello(a) | Message::QueryState(a) | Message::RequestOperation(a, _) | Message::PixelsComplete(a) | Message::Goodbye(a) => Some(a),
            _ => None,
        } {
            if a.0 != self.ctl.own {
                self.foreign_address_sent = true;
            }
        }
        if let Message::RequestOperation(_, op) = m {
            if matches!(op, Operation::ReceiveConfig | Operation::ReceivePixels) {
                self.requests_seen = self.requests_seen.saturating_add(1);
                if self.requests_seen > self.max_attempts {
                    // conversations with more transfer attempts than this harness explores
                    kani::assume(false);
                }
            }
        }
        let e = self.ctl.expected();
        if self.strict {
            assert!(self.matches_expected(&m, e), "C10: controller sent a message other than the one the documented protocol prescribes at this point");
        }
        if self.check_data {
            assert!(self.matches_expected(&m, e), "C09: transfer is out of order (request / chunks / count / query)");
            assert!(self.data_ok(&m, e), "C09: data chunk has the wrong offset, length or contents");
        }
        let reply = match self.replies {
            Replies::Conformant => self.conformant_reply(e),
            Replies::Arbitrary => self.arbitrary_reply(),
            Replies::ConformantAckArbitrary => {
                if matches!(e, Exp::Request(_)) {
                    self.arbitrary_reply()
                } else {
                    self.conformant_reply(e)
                }
            }
        };
        self.ctl.feed(abs_reply(&reply));
        if self.ctl.phase == Phase::Done && matches!(self.ctl.outcome, Outcome::Unexpected | Outcome::Bus) {
            self.dead = true;
        }
        if self.ctl.attempts > self.max_attempts {
            // later attempts are outside this harness' claim (covered at the one-chunk size)
            kani::assume(false);
        }
        if self.ctl.polls > self.max_polls {
            // longer polling than the bound: outside the claim
            kani::assume(false);
        }
        match reply {
            Ok(r) => Ok(r),
            Err(()) => Err(Box::new(BusErr)),
        }
    }
}
