//! Pipeline self-test: this harness is false on purpose.  The driver requires that it is
//! reported as a candidate violation and that it replays natively; if it ever "passes",
//! the result parser is broken and nothing else is believed.
#[kani::proof]
fn must_fail() {
    let x: u8 = kani::any();
    kani::cover!(x == 3, "reachable");
    assert!(x != 77, "SELFTEST: deliberately false assertion");
}
