// placeholder; regenerated on every run by vlib/genframes.py
