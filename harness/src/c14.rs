//! C14 — signs sharing a bus are isolated; replies come only from the addressed sign.
//! One message (concrete kind, symbolic parameters) to a bus of N signs, each in ANY invariant
//! state (concrete sizes), addresses symbolic and pairwise distinct.  One step from arbitrary
//! states covers every interleaving of traffic.
use crate::util::*;
use crate::vsign::*;
use flipdot_core::{Address, ChunkCount, Data, Message, Offset, PageFlipStyle, SignBus, State};
use flipdot_testing::{VirtualSign, VirtualSignBus};

use crate::c13::{abstract_msg, abstract_sign, contents_match, reply_matches, scalars_match, snap};
use crate::refmodel::{ref_sign_step, RefReply};

fn check2<const PGB0: usize, const PEND0: usize, const PGB1: usize, const PEND1: usize>(
    s0: VirtualSign<'static>,
    s1: VirtualSign<'static>,
    m: Message<'_>,
    data: &[u8],
) -> (RefReply, RefReply, bool, bool) {
    kani::assume(s0.address() != s1.address());
    // what each sign alone does with this message, per the sign-side machine (C13 ties the real
    // sign to that machine; here it is the yardstick for "untouched" / "as if alone")
    let pre0 = abstract_sign(&s0);
    let pre1 = abstract_sign(&s1);
    let snap0 = snap::<PGB0, PEND0>(&s0);
    let snap1 = snap::<PGB1, PEND1>(&s1);
    let am = abstract_msg(&m);
    let mut model0 = pre0;
    let mut model1 = pre1;
    let (want0, eff0) = ref_sign_step(&mut model0, am);
    let (want1, eff1) = ref_sign_step(&mut model1, am);
    let rcv0 = pre0.state == 1 || pre0.state == 4;
    let rcv1 = pre1.state == 1 || pre1.state == 4;

    let mut bus = VirtualSignBus::new(vec![s0, s1]);
    let res = bus.process_message(m);
    assert!(res.is_ok(), "C14: virtual bus returned an error");
    let reply = res.unwrap();

    // distinct addresses: at most one sign has something to say
    assert!(matches!(want0, RefReply::None) || matches!(want1, RefReply::None), "harness: two signs would reply");
    let want = if matches!(want0, RefReply::None) { want1 } else { want0 };
    assert!(reply_matches(&reply, want), "C14: reply is not exactly what the addressed sign alone would say (or somebody else answered)");
    assert!(scalars_match(bus.sign(0), &model0), "C14: first sign is not as if it alone had seen the message");
    assert!(scalars_match(bus.sign(1), &model1), "C14: second sign is not as if it alone had seen the message");
    assert!(contents_match::<PGB0, PEND0>(bus.sign(0), &snap0, &pre0, &model0, eff0, data), "C14: first sign's pages/buffer/type are not as if it alone had seen the message");
    assert!(contents_match::<PGB1, PEND1>(bus.sign(1), &snap1, &pre1, &model1, eff1, data), "C14: second sign's pages/buffer/type are not as if it alone had seen the message");
    std::mem::forget(reply);
    std::mem::forget(bus);
    (want0, want1, rcv0, rcv1)
}

fn addressed_may_reply<const PGB0: usize, const PEND0: usize, const PGB1: usize, const PEND1: usize>(s0: VirtualSign<'static>, s1: VirtualSign<'static>, m: Message<'_>) {
    let (w0, w1, _, _) = check2::<PGB0, PEND0, PGB1, PEND1>(s0, s1, m, &[]);
    kani::cover!(!matches!(w0, RefReply::None), "first sign replied");
    kani::cover!(!matches!(w1, RefReply::None), "second sign replied");
    kani::cover!(matches!(w0, RefReply::None) && matches!(w1, RefReply::None), "nobody replied");
}

fn addressed_silent<const PGB0: usize, const PEND0: usize, const PGB1: usize, const PEND1: usize>(s0: VirtualSign<'static>, s1: VirtualSign<'static>, m: Message<'_>) {
    let (w0, w1, _, _) = check2::<PGB0, PEND0, PGB1, PEND1>(s0, s1, m, &[]);
    kani::cover!(matches!(w0, RefReply::None) && matches!(w1, RefReply::None), "nobody replied");
}

/// Unaddressed data message: nobody replies and every sign ends, field for field, as the sign-side
/// machine says it would alone (in particular: untouched unless it is receiving).  Buffer and page
/// *bytes* are C13's business (single sign); comparing them here too exhausts CBMC's memory.
fn unaddressed(s0: VirtualSign<'static>, s1: VirtualSign<'static>, m: Message<'_>) {
    kani::assume(s0.address() != s1.address());
    let pre0 = abstract_sign(&s0);
    let pre1 = abstract_sign(&s1);
    let ty0 = s0.sign_type();
    let ty1 = s1.sign_type();
    let am = abstract_msg(&m);
    let mut model0 = pre0;
    let mut model1 = pre1;
    let (want0, eff0) = ref_sign_step(&mut model0, am);
    let (want1, eff1) = ref_sign_step(&mut model1, am);
    let r0 = pre0.state == 1 || pre0.state == 4;
    let r1 = pre1.state == 1 || pre1.state == 4;
    let mut bus = VirtualSignBus::new(vec![s0, s1]);
    let res = bus.process_message(m);
    assert!(res.is_ok(), "C14: virtual bus returned an error");
    let reply = res.unwrap();
    assert!(matches!(want0, RefReply::None) && matches!(want1, RefReply::None), "harness: model replied to an unaddressed message");
    assert!(reply.is_none(), "C14: somebody replied to an unaddressed data message");
    assert!(scalars_match(bus.sign(0), &model0), "C14: first sign is not as if it alone had seen the unaddressed message");
    assert!(scalars_match(bus.sign(1), &model1), "C14: second sign is not as if it alone had seen the unaddressed message");
    if !r0 {
        assert!(bus.sign(0).sign_type() == ty0 && matches!(eff0, crate::refmodel::RefEffect::Keep), "C14: unaddressed data message changed a sign that is not receiving");
    }
    if !r1 {
        assert!(bus.sign(1).sign_type() == ty1 && matches!(eff1, crate::refmodel::RefEffect::Keep), "C14: unaddressed data message changed a sign that is not receiving");
    }
    kani::cover!(r0 && r1, "both receiving");
    kani::cover!(!r0 && r1, "only second receiving");
    kani::cover!(!r0 && !r1, "none receiving");
    std::mem::forget(reply);
    std::mem::forget(bus);
}

macro_rules! pair_kind {
    ($name:ident, [$w0:expr, $h0:expr, $pgb0:expr, $np0:expr, $pend0:expr], [$w1:expr, $h1:expr, $pgb1:expr, $np1:expr, $pend1:expr], $k:expr, $f:ident) => {
        #[kani::proof]
        fn $name() {
            let s0 = any_inv_sign::<$w0, $h0, $pgb0, $np0, $pend0>(Address(kani::any()));
            let s1 = any_inv_sign::<$w1, $h1, $pgb1, $np1, $pend1>(Address(kani::any()));
            let m = any_message_of_kind::<$k>();
            $f::<$pgb0, $pend0, $pgb1, $pend1>(s0, s1, m);
        }
    };
}
macro_rules! pair_count {
    ($name:ident, [$w0:expr, $h0:expr, $pgb0:expr, $np0:expr, $pend0:expr], [$w1:expr, $h1:expr, $pgb1:expr, $np1:expr, $pend1:expr]) => {
        #[kani::proof]
        fn $name() {
            let s0 = any_inv_sign::<$w0, $h0, $pgb0, $np0, $pend0>(Address(kani::any()));
            let s1 = any_inv_sign::<$w1, $h1, $pgb1, $np1, $pend1>(Address(kani::any()));
            let m = Message::DataChunksSent(ChunkCount(kani::any()));
            unaddressed(s0, s1, m);
        }
    };
}
macro_rules! pair_data {
    ($name:ident, [$w0:expr, $h0:expr, $pgb0:expr, $np0:expr, $pend0:expr], [$w1:expr, $h1:expr, $pgb1:expr, $np1:expr, $pend1:expr], $l:expr) => {
        #[kani::proof]
        fn $name() {
            let s0 = any_inv_sign::<$w0, $h0, $pgb0, $np0, $pend0>(Address(kani::any()));
            let s1 = any_inv_sign::<$w1, $h1, $pgb1, $np1, $pend1>(Address(kani::any()));
            let d: [u8; $l] = kani::any();
            let m = Message::SendData(Offset(kani::any()), Data::try_new(&d[..]).unwrap());
            unaddressed(s0, s1, m);
        }
    };
}

// pair A: (12x8, complete 16-byte page buffered) + (12x8, 15-byte short buffer)
pair_count!(pa_k0, [12, 8, 16, 0, 16], [12, 8, 16, 0, 15]);
pair_kind!(pa_k1, [12, 8, 16, 0, 16], [12, 8, 16, 0, 15], 1, addressed_may_reply);
pair_kind!(pa_k2, [12, 8, 16, 0, 16], [12, 8, 16, 0, 15], 2, addressed_may_reply);
pair_kind!(pa_k3, [12, 8, 16, 0, 16], [12, 8, 16, 0, 15], 3, addressed_silent);
pair_kind!(pa_k4, [12, 8, 16, 0, 16], [12, 8, 16, 0, 15], 4, addressed_may_reply);
pair_kind!(pa_k5, [12, 8, 16, 0, 16], [12, 8, 16, 0, 15], 5, addressed_silent);
pair_kind!(pa_k6, [12, 8, 16, 0, 16], [12, 8, 16, 0, 15], 6, addressed_silent);
pair_kind!(pa_k7, [12, 8, 16, 0, 16], [12, 8, 16, 0, 15], 7, addressed_silent);
pair_data!(pa_d16, [12, 8, 16, 0, 16], [12, 8, 16, 0, 15], 16);
pair_data!(pa_d1, [12, 8, 16, 0, 16], [12, 8, 16, 0, 15], 1);
// pair B: (blank sizes) + (12x8 with one stored page, nothing buffered)
pair_count!(pb_k0, [0, 0, 0, 0, 0], [12, 8, 16, 1, 0]);
pair_kind!(pb_k1, [0, 0, 0, 0, 0], [12, 8, 16, 1, 0], 1, addressed_may_reply);
pair_kind!(pb_k2, [0, 0, 0, 0, 0], [12, 8, 16, 1, 0], 2, addressed_may_reply);
pair_kind!(pb_k4, [0, 0, 0, 0, 0], [12, 8, 16, 1, 0], 4, addressed_may_reply);
pair_kind!(pb_k6, [0, 0, 0, 0, 0], [12, 8, 16, 1, 0], 6, addressed_silent);
pair_kind!(pb_k7, [0, 0, 0, 0, 0], [12, 8, 16, 1, 0], 7, addressed_silent);
pair_data!(pb_d16, [0, 0, 0, 0, 0], [12, 8, 16, 1, 0], 16);
// pair C: (30x7 two of three chunks buffered) + (30x7 one stored page and a full page buffered)
pair_count!(pc_k0, [30, 7, 48, 0, 32], [30, 7, 48, 1, 48]);
pair_kind!(pc_k4, [30, 7, 48, 0, 32], [30, 7, 48, 1, 48], 4, addressed_may_reply);
pair_data!(pc_d16, [30, 7, 48, 0, 32], [30, 7, 48, 1, 48], 16);
