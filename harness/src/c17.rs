//! C17 — serial transport is transparent.  Decided compositionally (DESIGN.md): the controller side
//! of the wire is C16 (one frame out, one frame in iff a reply is due, reply = decoding of the
//! line), the codec is C01/C03/C05 (message -> frame -> text -> frame -> message is the identity),
//! and this module is the bridge side: `Odk::process_message` reads exactly one line, forwards the
//! decoded message to the bus, writes back a frame exactly when the bus replied, and reports an
//! undecodable line as a communication error without touching the bus.
//! Instantiation: Odk<SerPort<LEN, 24>, RecBus>.  Input lines are literals (see C15 for why).
use crate::refmodel::*;
use crate::symio::*;
use crate::util::*;
use flipdot_core::{Address, Message, Operation, SignBus, State};
use flipdot_testing::{Odk, OdkError};
use regex::contract::{set_mode, Mode};
use std::cell::RefCell;
use std::rc::Rc;

pub struct Seen {
    pub calls: u32,
    pub kind: Option<Kind>,
    pub addr: Option<u16>,
    pub reply_addr: u16,
}
static mut SEEN: Seen = Seen { calls: 0, kind: None, addr: None, reply_addr: 0 };
fn seen_reset() {
    unsafe {
        SEEN = Seen { calls: 0, kind: None, addr: None, reply_addr: 0 };
    }
}

/// Bus that records what it receives and answers according to RK:
/// 0 silent, 1 ReportState(3, PageLoaded), 2 AckOperation(3, StartReset), 3 bus error.
struct RecBus<const RK: u8>;

#[derive(Debug)]
struct BErr;
impl std::fmt::Display for BErr {
    fn fmt(&self, _f: &mut std::fmt::Formatter<'_>) -> std::fmt::Result {
        Ok(())
    }
}
impl std::error::Error for BErr {}

impl<const RK: u8> SignBus for RecBus<RK> {
    fn process_message<'a>(&mut self, m: Message<'_>) -> Result<Option<Message<'a>>, Box<dyn std::error::Error + Send + Sync>> {
        // concrete reply address: a symbolic one makes the whole reply object symbolic for CBMC, which then
        // no longer knows the reply's kind and explores the encoder with a symbolic data length (24 GB)
        let a: u16 = 0x0003;
        unsafe {
            SEEN.calls += 1;
            SEEN.kind = Some(kind_of(&m));
            SEEN.addr = addr_field(&m);
            SEEN.reply_addr = a;
        }
        match RK {
            0 => Ok(None),
            1 => Ok(Some(Message::ReportState(Address(a), State::PageLoaded))),
            2 => Ok(Some(Message::AckOperation(Address(a), Operation::StartReset))),
            _ => Err(Box::new(BErr)),
        }
    }
}

fn tape_of<const K: usize, const LEN: usize>(line: &[u8; K]) -> [u8; LEN] {
    let mut tape: [u8; LEN] = kani::any();
    let mut i = 0;
    while i < K {
        tape[i] = line[i];
        i += 1;
    }
    tape
}

/// A valid frame line arrives: forwarded once, reply written iff the bus replied.
fn forward<const K: usize, const LEN: usize, const RK: u8>(line: &[u8; K], end: usize, want_kind: Kind, want_addr: u16) {
    seen_reset();
    let port = SerPort::<LEN, 24>::new(tape_of::<K, LEN>(line), u32::MAX, u32::MAX);
    let mut odk = match Odk::try_new(port, RecBus::<RK>) {
        Ok(o) => o,
        Err(_) => {
            assert!(false, "harness: port setup failed");
            return;
        }
    };
    set_mode(Mode::Contract(end));
    let r = odk.process_message();
    let s = unsafe { &SEEN };
    assert!(s.calls == 1, "C17: the bridge did not forward the decoded frame to the bus exactly once");
    assert!(s.kind == Some(want_kind) && s.addr == Some(want_addr), "C17: the bridge forwarded a different message than the one on the wire");
    // What the bridge wrote is observed through a second handle on the port? Odk owns the port and
    // has no accessor, so the port's writer state is mirrored in the global event log instead.
    let wrote = ev_count_kind(EV_WRITE) > 0;
    match RK {
        0 => {
            assert!(r.is_ok(), "C17: a silent bus made the bridge fail");
            assert!(!wrote, "C17: the bridge wrote a frame although the bus did not reply");
        }
        1 | 2 => {
            assert!(r.is_ok(), "C17: the bridge failed although line and bus were fine");
            assert!(wrote, "C17: the bus replied but the bridge wrote nothing back");
            let (ty, byte) = if RK == 1 { (4u8, 0x10u8) } else { (5u8, 0x93u8) };
            let mut want = [0u8; 15];
            ref_encode(s.reply_addr, ty, &[byte], &mut want[..13]);
            want[13] = b'\r';
            want[14] = b'\n';
            assert!(last_write_len() == 15, "C17: the reply frame written back has the wrong length");
            let mut i = 0;
            while i < 15 {
                assert!(last_write_byte(i) == want[i], "C17: the bridge did not write back exactly the bus's reply frame");
                i += 1;
            }
        }
        _ => {
            assert!(matches!(r, Err(OdkError::Bus { .. })), "C17: a bus failure was not reported as a bus error");
            assert!(!wrote, "C17: the bridge wrote a frame although the bus failed");
        }
    }
    kani::cover!(true, "reached");
    std::mem::forget(r);
    std::mem::forget(odk);
}

/// An undecodable line: communication error, bus untouched, nothing written.
fn undecodable<const K: usize, const LEN: usize>(line: &[u8; K]) {
    seen_reset();
    let port = SerPort::<LEN, 24>::new(tape_of::<K, LEN>(line), u32::MAX, u32::MAX);
    let mut odk = match Odk::try_new(port, RecBus::<1>) {
        Ok(o) => o,
        Err(_) => {
            assert!(false, "harness: port setup failed");
            return;
        }
    };
    set_mode(Mode::Reject);
    let r = odk.process_message();
    assert!(matches!(r, Err(OdkError::Communication { .. })), "C17: an undecodable line was not reported as a communication error");
    assert!(unsafe { SEEN.calls } == 0, "C17: the bus was touched although the line could not be decoded");
    assert!(ev_count_kind(EV_WRITE) == 0, "C17: the bridge wrote something for an undecodable line");
    kani::cover!(true, "reached");
    std::mem::forget(r);
    std::mem::forget(odk);
}

macro_rules! fwd {
    ($name:ident, $line:expr, $k:expr, $len:expr, $end:expr, $rk:expr, $kind:expr, $addr:expr) => {
        #[kani::proof]
        fn $name() {
            ev_reset();
            forward::<$k, $len, $rk>($line, $end, $kind, $addr);
        }
    };
}
// Hello(0x0003) = :01000302FFFB ; QueryState(0x0003) = :0100030200FA ; RequestOperation(0x0003, StartReset) = :01000303A653
// DataChunksSent(3) = :00000301FC ; Goodbye(0x0003) = :0100030255A5
fwd!(fwd_hello_silent, b":01000302FFFB\r\n", 15, 18, 13, 0, Kind::Hello, 3);
fwd!(fwd_hello_buserr, b":01000302FFFB\r\n", 15, 18, 13, 3, Kind::Hello, 3);
fwd!(fwd_query_buserr, b":0100030200FA\r\n", 15, 18, 13, 3, Kind::QueryState, 3);
fwd!(fwd_request_silent, b":01000303A653\r\n", 15, 18, 13, 0, Kind::RequestOperation(4), 3);
fwd!(fwd_goodbye_silent, b":0100030255A5\r\n", 15, 18, 13, 0, Kind::Goodbye, 3);
fwd!(fwd_lowercase_hello_silent, b":01000302fffb\r\n", 15, 18, 13, 0, Kind::Hello, 3);

macro_rules! bad {
    ($name:ident, $line:expr, $k:expr, $len:expr) => {
        #[kani::proof]
        fn $name() {
            ev_reset();
            undecodable::<$k, $len>($line);
        }
    };
}
bad!(bad_garbage, b"hello\n", 6, 9);
bad!(bad_leading_byte, b"\0:01000302FFFB\r\n", 16, 19);
bad!(bad_leading_text, b"7F:01000302FFFB\r\n", 17, 20);
bad!(bad_bare_lf, b":01000302FFFB\n", 14, 17);
bad!(bad_empty, b"\n", 1, 4);
