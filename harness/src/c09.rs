//! C09 — controller data transfers are complete, ordered, correctly offset and counted.
//! The bus plays a conformant sign (result of each attempt symbolic, so retries are covered)
//! and checks the stream on line: request acknowledged first, then each item as consecutive
//! <=16-byte chunks at offsets 0,16,32.. with exactly the item's bytes, then the chunk count,
//! then the state query.
use crate::ctl::*;
use crate::ctlrun::*;

#[kani::proof]
#[kani::stub(std::fmt::format, crate::ctl::no_format)]
fn configure_all_types() {
    let (res, bus) = run_unit(Call::Configure, Replies::Conformant, false, true, 0);
    let b = bus.borrow();
    assert!(b.ctl.phase == Phase::Done, "C09: configure returned before the transfer was complete");
    assert!(outcome_matches(b.ctl.outcome, res), "C09: configure result does not match the conversation");
    kani::cover!(res == Res::Ok && b.ctl.attempts == 1, "configured first time");
    kani::cover!(res == Res::Ok && b.ctl.attempts == 3, "configured on third attempt");
    kani::cover!(res == Res::Unexpected, "gave up after three failures");
    drop(b);
    std::mem::forget(bus);
}

fn pages<const P: usize, const ILEN: usize>(w: u32, h: u32, att: u8) -> (Res, u8) {
    let (res, bus) = run_pages::<P, ILEN>(w, h, Replies::Conformant, false, true, att);
    let b = bus.borrow();
    assert!(b.ctl.phase == Phase::Done, "C09: send_pages returned before the conversation was complete");
    assert!(outcome_matches(b.ctl.outcome, res), "C09: send_pages result does not match the conversation");
    let attempts = b.ctl.attempts;
    drop(b);
    std::mem::forget(bus);
    (res, attempts)
}

fn covers3(res: Res, attempts: u8) {
    kani::cover!(matches!(res, Res::OkAutomatic) && attempts == 2, "sent on second attempt, automatic sign");
    kani::cover!(res == Res::Unexpected, "gave up after three failures");
}

fn covers1(_res: Res, _attempts: u8) {}

macro_rules! pages {
    ($name:ident, $p:expr, $ilen:expr, $w:expr, $h:expr, $att:expr, $cov:ident) => {
        #[kani::proof]
        #[kani::stub(std::fmt::format, crate::ctl::no_format)]
        fn $name() {
            let (res, attempts) = pages::<$p, $ilen>($w, $h, $att);
            kani::cover!(matches!(res, Res::OkManual) && attempts == 1, "sent first time");
            $cov(res, attempts);
        }
    };
}
pages!(pages_p0, 0, 16, 12, 8, 3, covers3);
pages!(pages_p1_16, 1, 16, 12, 8, 3, covers3);
pages!(pages_p2_16, 2, 16, 12, 8, 3, covers3);
pages!(pages_p3_16, 3, 16, 12, 8, 3, covers3);
pages!(pages_p1_32, 1, 32, 28, 8, 3, covers3);
pages!(pages_p1_48, 1, 48, 30, 7, 3, covers3);
pages!(pages_p2_48, 2, 48, 30, 7, 3, covers3);
pages!(pages_p1_96, 1, 96, 90, 7, 3, covers3);
pages!(pages_p1_336, 1, 336, 160, 16, 3, covers3);
pages!(pages_p1_16_a1, 1, 16, 12, 8, 1, covers1);
pages!(pages_p1_32_a1, 1, 32, 28, 8, 1, covers1);
pages!(pages_p1_48_a1, 1, 48, 30, 7, 1, covers1);
pages!(pages_p2_16_a1, 2, 16, 12, 8, 1, covers1);
pages!(pages_p2_48_a1, 2, 48, 30, 7, 1, covers1);
pages!(pages_p1_96_a1, 1, 96, 90, 7, 1, covers1);
pages!(pages_p1_336_a1, 1, 336, 160, 16, 1, covers1);

/// Quick-tier variant: one sign type, first transfer attempt only (reset dance + one transfer).
#[kani::proof]
#[kani::stub(std::fmt::format, crate::ctl::no_format)]
fn configure_a1() {
    let (res, bus) = run_unit_bounded(Call::Configure, Replies::Conformant, false, true, 0, 1, true);
    let b = bus.borrow();
    assert!(b.ctl.phase == Phase::Done, "C09: configure returned before the transfer was complete");
    assert!(outcome_matches(b.ctl.outcome, res), "C09: configure result does not match the conversation");
    kani::cover!(res == Res::Ok, "configured");
    drop(b);
    std::mem::forget(bus);
}

/// "It first obtains the sign's acknowledgement of the matching receive request": the answer to
/// every request (first attempt and retries) is arbitrary; anything but the matching own ack must
/// stop the transfer before any chunk / count is sent.  Empty page list, all three attempts.
#[kani::proof]
#[kani::stub(std::fmt::format, crate::ctl::no_format)]
fn pages_p0_ack_required() {
    let own: u16 = kani::any();
    let items: [[u8; 16]; 0] = [];
    let pages: Vec<flipdot_core::Page<'static>> = Vec::new();
    let mut sb = SymBus::<0, 16>::new(own, Call::SendPages, items, Replies::ConformantAckArbitrary, false, true, 0);
    sb.rich = false;
    let bus = std::rc::Rc::new(std::cell::RefCell::new(sb));
    let dynbus: std::rc::Rc<std::cell::RefCell<dyn flipdot_core::SignBus>> = bus.clone();
    let sign = flipdot::Sign::new(dynbus, flipdot_core::Address(own), any_sign_type());
    let r = sign.send_pages(&pages);
    let res = class_flip(&r);
    let b = bus.borrow();
    assert!(b.ctl.phase == Phase::Done, "C09: send_pages returned before the conversation was complete");
    assert!(outcome_matches(b.ctl.outcome, res), "C09: send_pages result does not match the conversation");
    kani::cover!(res == Res::Unexpected && b.ctl.attempts == 2, "retry request not acknowledged");
    kani::cover!(matches!(res, Res::OkManual | Res::OkAutomatic), "sent");
    drop(b);
    std::mem::forget(r);
    std::mem::forget(sign);
    std::mem::forget(bus);
}
