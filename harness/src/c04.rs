//! C04 — Frame -> Message -> Frame is the identity and follows the protocol code table.
use crate::refmodel::{ref_kind, Kind};
use crate::util::*;
use flipdot_core::{Address, Data, Frame, Message, MsgType};

fn cov_l0(want: Kind) {
    kani::cover!(matches!(want, Kind::Unknown), "kind unknown");
    kani::cover!(matches!(want, Kind::SendData), "kind send-data");
    kani::cover!(matches!(want, Kind::DataChunksSent), "kind chunk count");
}
fn cov_l1(want: Kind) {
    kani::cover!(matches!(want, Kind::Unknown), "kind unknown");
    kani::cover!(matches!(want, Kind::SendData), "kind send-data");
    kani::cover!(matches!(want, Kind::Hello), "kind hello");
    kani::cover!(matches!(want, Kind::QueryState), "kind query");
    kani::cover!(matches!(want, Kind::Goodbye), "kind goodbye");
    kani::cover!(matches!(want, Kind::PixelsComplete), "kind pixels complete");
    kani::cover!(matches!(want, Kind::ReportState(0)), "kind state first");
    kani::cover!(matches!(want, Kind::ReportState(12)), "kind state last");
    kani::cover!(matches!(want, Kind::RequestOperation(5)), "kind request last");
    kani::cover!(matches!(want, Kind::AckOperation(5)), "kind ack last");
}
fn cov_ln(want: Kind) {
    kani::cover!(matches!(want, Kind::Unknown), "kind unknown");
    kani::cover!(matches!(want, Kind::SendData), "kind send-data");
}

fn check<const L: usize>(owned: bool, cov: fn(Kind)) {
    let d: [u8; L] = kani::any();
    let addr: u16 = kani::any();
    let ty: u8 = kani::any();
    let data = if owned { Data::try_new(d.to_vec()).unwrap() } else { Data::try_new(&d[..]).unwrap() };
    let f = Frame::new(Address(addr), MsgType(ty), data);
    let orig = f.clone();

    let m = Message::from(f);
    let first = if L > 0 { d[0] } else { 0 };
    let want = ref_kind(ty, L, first);
    let got = kind_of(&m);
    assert!(got == want, "C04: message kind differs from the protocol table");
    match &m {
        Message::Unknown(inner) => {
            assert!(inner.address() == Address(addr) && inner.message_type() == MsgType(ty), "C04: unknown wrapper changed the frame header");
            assert!(bytes_eq(inner.data(), &d), "C04: unknown wrapper changed the frame data");
        }
        Message::SendData(off, data) => {
            assert!(off.0 == addr, "C04: offset not carried over");
            assert!(bytes_eq(data.get(), &d), "C04: data not carried over");
        }
        other => {
            assert!(addr_field(other) == Some(addr), "C04: address field not carried over");
        }
    }

    cov(want);

    let back = Frame::from(m);
    assert!(back.address() == orig.address(), "C04: round trip changed the address");
    assert!(back.message_type() == orig.message_type(), "C04: round trip changed the type");
    assert!(bytes_eq(back.data(), &d), "C04: round trip changed the data");
    assert!(back == orig, "C04: round trip frame not equal");
}

macro_rules! fam {
    ($name:ident, $l:expr, $owned:expr, $cov:expr) => {
        #[kani::proof]
        fn $name() {
            check::<$l>($owned, $cov);
        }
    };
}

fam!(borrowed_l0, 0, false, cov_l0);
fam!(borrowed_l1, 1, false, cov_l1);
fam!(borrowed_l2, 2, false, cov_ln);
fam!(borrowed_l3, 3, false, cov_ln);
fam!(borrowed_l16, 16, false, cov_ln);
fam!(borrowed_l255, 255, false, cov_ln);
fam!(owned_l0, 0, true, cov_l0);
fam!(owned_l1, 1, true, cov_l1);
fam!(owned_l2, 2, true, cov_ln);
fam!(owned_l16, 16, true, cov_ln);
fam!(borrowed_l4, 4, false, cov_ln);
fam!(borrowed_l15, 15, false, cov_ln);
fam!(borrowed_l17, 17, false, cov_ln);
fam!(borrowed_l64, 64, false, cov_ln);
fam!(owned_l3, 3, true, cov_ln);
fam!(owned_l255, 255, true, cov_ln);
