//! C08 — pages sent through the controller arrive bit-exact, from any prior sign state.
//! Real `Sign` driving the real `VirtualSignBus` / `VirtualSign`; the sign starts in ANY state
//! satisfying the representation invariant (so every history of earlier traffic is covered).
use crate::ctl::no_format;
use crate::ctlrun::*;
use crate::util::*;
use crate::vsign::*;
use flipdot::{Sign, SignError};
use flipdot_core::{Address, Page, PageFlipStyle, PageId, SignBus, SignType, State};
use flipdot_testing::{VirtualSign, VirtualSignBus};
use std::cell::RefCell;
use std::rc::Rc;

fn make(prior: VirtualSign<'static>, t: SignType) -> (Sign, Rc<RefCell<VirtualSignBus<'static>>>) {
    let addr = prior.address();
    let bus = Rc::new(RefCell::new(VirtualSignBus::new(vec![prior])));
    let dynbus: Rc<RefCell<dyn SignBus>> = bus.clone();
    (Sign::new(dynbus, addr, t), bus)
}

/// configure() from any prior state: Ok, configured as the requested type, no pages.
fn configure<const W: u32, const H: u32, const PGB: usize, const NP: usize, const PEND: usize>(t: SignType) {
    let prior = any_inv_sign::<W, H, PGB, NP, PEND>(Address(kani::any()));
    let before = prior.state();
    let (sign, bus) = make(prior, t);
    let r = sign.configure();
    assert!(r.is_ok(), "C08: configure failed against a virtual sign");
    {
        let b = bus.borrow();
        let s = b.sign(0);
        assert!(s.state() == State::ConfigReceived, "C08: sign is not in the config-received state after configure");
        assert!(s.sign_type() == Some(t), "C08: sign is not configured as the requested type");
        assert!(s.pages().is_empty(), "C08: sign still holds pages after configure");
        let (pend, chunks, w, h, _) = s.verif_parts();
        assert!((w, h) == t.dimensions() && pend.is_empty() && chunks == 0, "C08: sign dimensions / buffers wrong after configure");
    }
    kani::cover!(before == State::ReadyToReset, "was ready to reset");
    kani::cover!(before == State::PixelsInProgress, "was mid pixel transfer");
    std::mem::forget(r);
    std::mem::forget(sign);
    std::mem::forget(bus);
}

/// configure_if_needed() from any prior state: Ok, and the sign ends in a state that accepts pages.
fn configure_if_needed<const W: u32, const H: u32, const PGB: usize, const NP: usize, const PEND: usize>(t: SignType) {
    let prior = any_inv_sign::<W, H, PGB, NP, PEND>(Address(kani::any()));
    let before = prior.state();
    let before_type = prior.sign_type();
    let (sign, bus) = make(prior, t);
    let r = sign.configure_if_needed();
    assert!(r.is_ok(), "C08: configure_if_needed failed against a virtual sign");
    {
        let b = bus.borrow();
        let s = b.sign(0);
        let ready_before = matches!(before, State::ConfigReceived | State::ShowingPages | State::PageLoaded | State::PageShowInProgress | State::PageShown | State::PageLoadInProgress);
        if ready_before {
            assert!(s.sign_type() == before_type, "C08: configure_if_needed reconfigured a sign that was ready");
            assert!(matches!(s.state(), State::ConfigReceived | State::ShowingPages | State::PageLoaded | State::PageShown | State::PageShowInProgress | State::PageLoadInProgress), "C08: ready sign left the page-accepting states");
        } else {
            assert!(s.state() == State::ConfigReceived && s.sign_type() == Some(t) && s.pages().is_empty(), "C08: sign that was not ready is not freshly configured");
        }
        kani::cover!(ready_before, "was ready");
        kani::cover!(!ready_before, "needed configuration");
    }
    std::mem::forget(r);
    std::mem::forget(sign);
    std::mem::forget(bus);
}

/// send_pages(P pages of W x H) to a sign configured for W x H in ANY page-accepting state
/// (possibly holding an old page): Ok(style); exactly those pages, byte-identical, in order.
fn send<const W: u32, const H: u32, const PGB: usize, const NP: usize, const P: usize>() {
    let prior = any_inv_sign::<W, H, PGB, NP, 0>(Address(kani::any()));
    kani::assume(matches!(
        prior.state(),
        State::ConfigReceived | State::PixelsFailed | State::PageLoaded | State::PageLoadInProgress | State::PageShown | State::PageShowInProgress | State::ShowingPages
    ));
    let (_, _, _, _, flip) = prior.verif_parts();
    let items: [[u8; PGB]; P] = kani::any();
    let mut pages: Vec<Page<'static>> = Vec::with_capacity(P);
    let mut i = 0;
    while i < P {
        pages.push(Page::from_bytes(W, H, items[i].to_vec()).unwrap());
        i += 1;
    }
    let (sign, bus) = make(prior, any_sign_type());
    let r = sign.send_pages(&pages);
    match &r {
        Ok(style) => assert!(*style == flip, "C08: send_pages reports the wrong flip style"),
        Err(_) => assert!(false, "C08: send_pages failed against a configured virtual sign"),
    }
    {
        let b = bus.borrow();
        let s = b.sign(0);
        assert!(s.pages().len() == P, "C08: sign does not hold exactly the pages sent");
        // every page, every byte: quantified through a symbolic page index and byte index
        if P > 0 {
            let i: usize = kani::any();
            let j: usize = kani::any();
            kani::assume(i < P && j < PGB);
            let p = &s.pages()[i];
            assert!(p.width() == W && p.height() == H && p.as_bytes().len() == PGB, "C08: a stored page has the wrong size");
            assert!(p.as_bytes()[j] == items[i][j], "C08: a stored page differs from the page sent");
        }
        let want = if flip == PageFlipStyle::Automatic { State::ShowingPages } else { State::PageLoaded };
        assert!(s.state() == want, "C08: sign is not in page-loaded (manual) / showing-pages (automatic) after send_pages");
    }
    kani::cover!(flip == PageFlipStyle::Automatic, "automatic sign");
    kani::cover!(flip == PageFlipStyle::Manual, "manual sign");
    std::mem::forget(r);
    std::mem::forget(sign);
    std::mem::forget(bus);
    std::mem::forget(pages);
}

/// show_loaded_page / load_next_page after pages were sent.
fn flip<const SHOW: bool>() {
    let prior = any_inv_sign::<12, 8, 16, 1, 0>(Address(kani::any()));
    kani::assume(matches!(prior.state(), State::PageLoaded | State::PageLoadInProgress | State::PageShown | State::PageShowInProgress | State::ShowingPages));
    let before = prior.state();
    // show needs a loaded (or loading) page, load-next a shown (or showing) one
    let (sign, bus) = make(prior, any_sign_type());
    let r = if SHOW { sign.show_loaded_page() } else { sign.load_next_page() };
    assert!(r.is_ok(), "C08: page flip call failed against a virtual sign holding pages");
    {
        let b = bus.borrow();
        let s = b.sign(0);
        if before == State::ShowingPages {
            assert!(s.state() == State::ShowingPages, "C08: flip call changed an automatic sign");
        } else if SHOW {
            assert!(s.state() == State::PageShown, "C08: show_loaded_page did not end in page-shown");
        } else {
            assert!(s.state() == State::PageLoaded, "C08: load_next_page did not end in page-loaded");
        }
        assert!(s.pages().len() == 1, "C08: flip call changed the stored pages");
    }
    kani::cover!(before == State::ShowingPages, "automatic");
    kani::cover!(before == State::PageLoaded, "from loaded");
    kani::cover!(before == State::PageShown, "from shown");
    std::mem::forget(r);
    std::mem::forget(sign);
    std::mem::forget(bus);
}

macro_rules! cfg {
    ($name:ident, $f:ident, $t:expr, $w:expr, $h:expr, $pgb:expr, $np:expr, $pend:expr) => {
        #[kani::proof]
        #[kani::stub(std::fmt::format, crate::ctl::no_format)]
        fn $name() {
            $f::<$w, $h, $pgb, $np, $pend>($t);
        }
    };
}
cfg!(configure_blank_dash, configure, SignType::Max3000Dash30x7, 0, 0, 0, 0, 0);
cfg!(configure_midtransfer_dash, configure, SignType::Max3000Dash30x7, 12, 8, 16, 0, 16);
cfg!(configure_withpage_horizon, configure, SignType::HorizonDash40x12, 12, 8, 16, 1, 0);
cfg!(configure_short_buffer_side, configure, SignType::Max3000Side90x7, 30, 7, 48, 0, 32);
cfg!(cin_blank_dash, configure_if_needed, SignType::Max3000Dash30x7, 0, 0, 0, 0, 0);
cfg!(cin_withpage_dash, configure_if_needed, SignType::Max3000Dash30x7, 12, 8, 16, 1, 0);

macro_rules! snd {
    ($name:ident, $w:expr, $h:expr, $pgb:expr, $np:expr, $p:expr) => {
        #[kani::proof]
        #[kani::stub(std::fmt::format, crate::ctl::no_format)]
        fn $name() {
            send::<$w, $h, $pgb, $np, $p>();
        }
    };
}
/// Composition lemma on the two reference machines (no repository code): the message stream the
/// reference controller emits for send_pages(P pages of ILEN bytes), fed message by message into
/// the reference sign (configured for pages of ILEN bytes, in any page-accepting state, possibly
/// holding an old page), ends with success and the sign holding exactly those pages, byte for
/// byte, in order.  C09/C10 tie the real controller to `RefCtl`, C13 ties the real virtual sign to
/// `ref_sign_step`; together with this lemma that gives "pages arrive bit-exact" for the real pair
/// (a direct query of the real pair with page data exhausts 44 GB in CBMC).
fn model_composition<const P: usize, const ILEN: usize, const W: u32, const H: u32>() {
    use crate::ctl::*;
    use crate::refmodel::*;
    assert!(ILEN as u64 == ref_total_bytes(W, H));
    let own: u16 = kani::any();
    let items: [[u8; ILEN]; P] = kani::any();
    let auto: bool = kani::any();
    let st: u8 = kani::any();
    kani::assume(st == 2 || st == 6 || st == 7 || st == 8 || st == 9 || st == 10 || st == 11);
    kani::assume(if st == 11 { auto } else if st >= 7 { !auto } else { true });
    let old: usize = kani::any();
    kani::assume(old <= 1);
    let mut sign = RefSign { addr: own, automatic: auto, state: st, w: W, h: H, chunks: 0, pend_len: 0, npages: old };
    let mut ctl = RefCtl::new(own, Call::SendPages, P, ILEN);
    // contents tracked next to the scalar sign model
    let mut pend = [0u8; ILEN];
    let mut stored = [[0u8; ILEN]; P];
    let mut nstored = 0usize;
    let cpi = (ILEN + 15) / 16;
    let mut steps = 0;
    while ctl.phase != Phase::Done && steps < 6 + P * cpi {
        let e = ctl.expected();
        let msg = match e {
            Exp::Hello => RefMsg::Hello(own),
            Exp::Query => RefMsg::Query(own),
            Exp::Request(op) => RefMsg::Request(own, op),
            Exp::PixelsComplete => RefMsg::PixelsComplete(own),
            Exp::Goodbye => RefMsg::Goodbye(own),
            Exp::Count(n) => RefMsg::ChunksSent(n),
            Exp::Data { chunk, .. } => {
                let start = chunk * 16;
                let len = if ILEN - start < 16 { ILEN - start } else { 16 };
                RefMsg::SendData { offset: start as u16, len, b0: 0, b4: 0, b5: 0, b6: 0, b7: 0, b8: 0 }
            }
            Exp::Nothing => RefMsg::Other,
        };
        let pre = sign;
        let (reply, eff) = ref_sign_step(&mut sign, msg);
        // mirror the effect on the contents
        match eff {
            RefEffect::ClearPages => nstored = 0,
            RefEffect::Blank => nstored = 0,
            RefEffect::Append { flush_first } => {
                if let Exp::Data { item, chunk } = e {
                    let start = chunk * 16;
                    let len = if ILEN - start < 16 { ILEN - start } else { 16 };
                    if flush_first {
                        if pending_is_page(&pre) {
                            assert!(nstored < P, "model: more pages stored than sent");
                            stored[nstored] = pend;
                            nstored += 1;
                        }
                    }
                    let base = if flush_first { 0 } else { pre.pend_len };
                    assert!(base + len <= ILEN, "model: buffer longer than a page");
                    let mut i = 0;
                    while i < len {
                        pend[base + i] = items[item][start + i];
                        i += 1;
                    }
                }
            }
            RefEffect::Flush => {
                if pending_is_page(&pre) {
                    assert!(nstored < P, "model: more pages stored than sent");
                    stored[nstored] = pend;
                    nstored += 1;
                }
            }
            _ => {}
        }
        let rep = match reply {
            RefReply::None => Rep::None,
            RefReply::Report(a, s) => Rep::Report(a, s),
            RefReply::Ack(a, o) => Rep::Ack(a, o),
        };
        ctl.feed(rep);
        steps += 1;
    }
    assert!(ctl.phase == Phase::Done, "C08 (composition): the conversation did not finish");
    assert!(ctl.outcome == if auto { Outcome::OkAutomatic } else { Outcome::OkManual }, "C08 (composition): send_pages does not succeed with the matching flip style");
    assert!(sign.state == if auto { 11 } else { 7 }, "C08 (composition): sign not in showing-pages / page-loaded");
    assert!(sign.npages == P && nstored == P, "C08 (composition): the sign does not hold exactly the pages sent");
    if P > 0 {
        let i: usize = kani::any();
        let j: usize = kani::any();
        kani::assume(i < P && j < ILEN);
        assert!(stored[i][j] == items[i][j], "C08 (composition): a stored page differs from the page sent");
    }
    kani::cover!(auto, "automatic sign");
    kani::cover!(!auto && old == 1, "manual sign holding an old page");
}
#[kani::proof]
fn model_composition_p1_16() {
    model_composition::<1, 16, 12, 8>();
}
#[kani::proof]
fn model_composition_p2_48() {
    model_composition::<2, 48, 30, 7>();
}
#[kani::proof]
fn model_composition_p2_96() {
    model_composition::<2, 96, 90, 7>();
}
snd!(send_p0, 12, 8, 16, 0, 0);

#[kani::proof]
#[kani::stub(std::fmt::format, crate::ctl::no_format)]
fn show_loaded() {
    flip::<true>();
}
#[kani::proof]
#[kani::stub(std::fmt::format, crate::ctl::no_format)]
fn load_next() {
    flip::<false>();
}
