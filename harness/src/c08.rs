//! C08 — pages sent through the controller arrive bit-exact, from any prior sign state.
//! Real `Sign` driving the real `VirtualSignBus` / `VirtualSign`; the sign starts in ANY state
//! satisfying the representation invariant (so every history of earlier traffic is covered).
use crate::ctl::no_format;
use crate::ctlrun::*;
use crate::util::*;
use crate::vsign::*;
use flipdot::{Sign, SignError};
use flipdot_core::{Address, Page, PageFlipStyle, PageId, SignBus, SignType, State};
use flipdot_testing::{VirtualSign, VirtualSignBus};
use std::cell::RefCell;
use std::rc::Rc;

fn make(prior: VirtualSign<'static>, t: SignType) -> (Sign, Rc<RefCell<VirtualSignBus<'static>>>) {
    let addr = prior.address();
    let bus = Rc::new(RefCell::new(VirtualSignBus::new(vec![prior])));
    let dynbus: Rc<RefCell<dyn SignBus>> = bus.clone();
    (Sign::new(dynbus, addr, t), bus)
}

/// configure() from any prior state: Ok, configured as the requested type, no pages.
fn configure<const W: u32, const H: u32, const PGB: usize, const NP: usize, const PEND: usize>(t: SignType) {
    let prior = any_inv_sign::<W, H, PGB, NP, PEND>(Address(kani::any()));
    let before = prior.state();
    let (sign, bus) = make(prior, t);
    let r = sign.configure();
    assert!(r.is_ok(), "C08: configure failed against a virtual sign");
    {
        let b = bus.borrow();
        let s = b.sign(0);
        assert!(s.state() == State::ConfigReceived, "C08: sign is not in the config-received state after configure");
        assert!(s.sign_type() == Some(t), "C08: sign is not configured as the requested type");
        assert!(s.pages().is_empty(), "C08: sign still holds pages after configure");
        let (pend, chunks, w, h, _) = s.verif_parts();
        assert!((w, h) == t.dimensions() && pend.is_empty() && chunks == 0, "C08: sign dimensions / buffers wrong after configure");
    }
    kani::cover!(before == State::Unconfigured, "was unconfigured");
    kani::cover!(before == State::ReadyToReset, "was ready to reset");
    kani::cover!(before == State::PixelsInProgress, "was mid pixel transfer");
    std::mem::forget(r);
    std::mem::forget(sign);
    std::mem::forget(bus);
}

/// configure_if_needed() from any prior state: Ok, and the sign ends in a state that accepts pages.
fn configure_if_needed<const W: u32, const H: u32, const PGB: usize, const NP: usize, const PEND: usize>(t: SignType) {
    let prior = any_inv_sign::<W, H, PGB, NP, PEND>(Address(kani::any()));
    let before = prior.state();
    let before_type = prior.sign_type();
    let (sign, bus) = make(prior, t);
    let r = sign.configure_if_needed();
    assert!(r.is_ok(), "C08: configure_if_needed failed against a virtual sign");
    {
        let b = bus.borrow();
        let s = b.sign(0);
        let ready_before = matches!(before, State::ConfigReceived | State::ShowingPages | State::PageLoaded | State::PageShowInProgress | State::PageShown | State::PageLoadInProgress);
        if ready_before {
            assert!(s.sign_type() == before_type, "C08: configure_if_needed reconfigured a sign that was ready");
            assert!(matches!(s.state(), State::ConfigReceived | State::ShowingPages | State::PageLoaded | State::PageShown | State::PageShowInProgress | State::PageLoadInProgress), "C08: ready sign left the page-accepting states");
        } else {
            assert!(s.state() == State::ConfigReceived && s.sign_type() == Some(t) && s.pages().is_empty(), "C08: sign that was not ready is not freshly configured");
        }
        kani::cover!(ready_before, "was ready");
        kani::cover!(!ready_before, "needed configuration");
    }
    std::mem::forget(r);
    std::mem::forget(sign);
    std::mem::forget(bus);
}

/// send_pages(P pages of W x H) to a sign configured for W x H in ANY page-accepting state
/// (possibly holding an old page): Ok(style); exactly those pages, byte-identical, in order.
fn send<const W: u32, const H: u32, const PGB: usize, const NP: usize, const P: usize>() {
    let prior = any_inv_sign::<W, H, PGB, NP, 0>(Address(kani::any()));
    kani::assume(matches!(
        prior.state(),
        State::ConfigReceived | State::PixelsFailed | State::PageLoaded | State::PageLoadInProgress | State::PageShown | State::PageShowInProgress | State::ShowingPages
    ));
    let (_, _, _, _, flip) = prior.verif_parts();
    let items: [[u8; PGB]; P] = kani::any();
    let mut pages: Vec<Page<'static>> = Vec::with_capacity(P);
    let mut i = 0;
    while i < P {
        pages.push(Page::from_bytes(W, H, items[i].to_vec()).unwrap());
        i += 1;
    }
    let (sign, bus) = make(prior, any_sign_type());
    let r = sign.send_pages(&pages);
    match &r {
        Ok(style) => assert!(*style == flip, "C08: send_pages reports the wrong flip style"),
        Err(_) => assert!(false, "C08: send_pages failed against a configured virtual sign"),
    }
    {
        let b = bus.borrow();
        let s = b.sign(0);
        assert!(s.pages().len() == P, "C08: sign does not hold exactly the pages sent");
        let mut i = 0;
        while i < P {
            let p = &s.pages()[i];
            assert!(p.width() == W && p.height() == H && bytes_eq(p.as_bytes(), &items[i]), "C08: a stored page differs from the page sent");
            i += 1;
        }
        let want = if flip == PageFlipStyle::Automatic { State::ShowingPages } else { State::PageLoaded };
        assert!(s.state() == want, "C08: sign is not in page-loaded (manual) / showing-pages (automatic) after send_pages");
    }
    kani::cover!(flip == PageFlipStyle::Automatic, "automatic sign");
    kani::cover!(flip == PageFlipStyle::Manual, "manual sign");
    std::mem::forget(r);
    std::mem::forget(sign);
    std::mem::forget(bus);
    std::mem::forget(pages);
}

/// show_loaded_page / load_next_page after pages were sent.
fn flip<const SHOW: bool>() {
    let prior = any_inv_sign::<12, 8, 16, 1, 0>(Address(kani::any()));
    kani::assume(matches!(prior.state(), State::PageLoaded | State::PageLoadInProgress | State::PageShown | State::PageShowInProgress | State::ShowingPages));
    let before = prior.state();
    // show needs a loaded (or loading) page, load-next a shown (or showing) one
    if SHOW {
        kani::assume(!matches!(before, State::PageLoadInProgress) || true);
    }
    let (sign, bus) = make(prior, any_sign_type());
    let r = if SHOW { sign.show_loaded_page() } else { sign.load_next_page() };
    assert!(r.is_ok(), "C08: page flip call failed against a virtual sign holding pages");
    {
        let b = bus.borrow();
        let s = b.sign(0);
        if before == State::ShowingPages {
            assert!(s.state() == State::ShowingPages, "C08: flip call changed an automatic sign");
        } else if SHOW {
            assert!(s.state() == State::PageShown, "C08: show_loaded_page did not end in page-shown");
        } else {
            assert!(s.state() == State::PageLoaded, "C08: load_next_page did not end in page-loaded");
        }
        assert!(s.pages().len() == 1, "C08: flip call changed the stored pages");
    }
    kani::cover!(before == State::ShowingPages, "automatic");
    kani::cover!(before == State::PageLoaded, "from loaded");
    kani::cover!(before == State::PageShown, "from shown");
    std::mem::forget(r);
    std::mem::forget(sign);
    std::mem::forget(bus);
}

macro_rules! cfg {
    ($name:ident, $f:ident, $t:expr, $w:expr, $h:expr, $pgb:expr, $np:expr, $pend:expr) => {
        #[kani::proof]
        #[kani::stub(std::fmt::format, crate::ctl::no_format)]
        fn $name() {
            $f::<$w, $h, $pgb, $np, $pend>($t);
        }
    };
}
cfg!(configure_blank_dash, configure, SignType::Max3000Dash30x7, 0, 0, 0, 0, 0);
cfg!(configure_midtransfer_dash, configure, SignType::Max3000Dash30x7, 12, 8, 16, 0, 16);
cfg!(configure_withpage_horizon, configure, SignType::HorizonDash40x12, 12, 8, 16, 1, 0);
cfg!(configure_short_buffer_side, configure, SignType::Max3000Side90x7, 30, 7, 48, 0, 32);
cfg!(cin_blank_dash, configure_if_needed, SignType::Max3000Dash30x7, 0, 0, 0, 0, 0);
cfg!(cin_withpage_dash, configure_if_needed, SignType::Max3000Dash30x7, 12, 8, 16, 1, 0);

macro_rules! snd {
    ($name:ident, $w:expr, $h:expr, $pgb:expr, $np:expr, $p:expr) => {
        #[kani::proof]
        #[kani::stub(std::fmt::format, crate::ctl::no_format)]
        fn $name() {
            send::<$w, $h, $pgb, $np, $p>();
        }
    };
}
snd!(send_p0, 12, 8, 16, 0, 0);
snd!(send_p1, 12, 8, 16, 0, 1);
snd!(send_p1_over_old, 12, 8, 16, 1, 1);
snd!(send_p2, 12, 8, 16, 0, 2);
snd!(send_p1_30x7, 30, 7, 48, 0, 1);
snd!(send_p2_30x7_over_old, 30, 7, 48, 1, 2);

#[kani::proof]
#[kani::stub(std::fmt::format, crate::ctl::no_format)]
fn show_loaded() {
    flip::<true>();
}
#[kani::proof]
#[kani::stub(std::fmt::format, crate::ctl::no_format)]
fn load_next() {
    flip::<false>();
}
