//! C19 — sign-type configuration blocks are self-consistent and decoding them is total.
use crate::gen_types::ALL_TYPES;
use crate::util::*;
use crate::vsign::*;
use flipdot_core::{Address, Data, Message, Offset, Operation, PageFlipStyle, SignType, SignTypeError, State};
use flipdot_testing::VirtualSign;

const NT: usize = ALL_TYPES.len();

/// Any length other than 16 (0..=40, symbolic), any contents: rejected with the documented error.
#[kani::proof]
fn wrong_length_rejected() {
    let buf: [u8; 40] = kani::any();
    let n: usize = kani::any();
    kani::assume(n <= 40 && n != 16);
    match SignType::from_bytes(&buf[..n]) {
        Err(SignTypeError::WrongConfigLength { expected, actual }) => {
            assert!(expected == 16 && actual == n, "C19: wrong-length error reports the wrong numbers");
        }
        _ => assert!(false, "C19: a block whose length is not 16 was not rejected as wrong length"),
    }
    kani::cover!(n == 0, "empty");
    kani::cover!(n == 15, "fifteen");
    kani::cover!(n == 17, "seventeen");
    kani::cover!(n == 40, "forty");
}

fn known_pair(b0: u8, b1: u8) -> Option<usize> {
    let mut i = 0;
    while i < NT {
        let tb = ALL_TYPES[i].to_bytes();
        if tb.len() >= 2 && tb[0] == b0 && tb[1] == b1 {
            return Some(i);
        }
        i += 1;
    }
    None
}

/// All 16 bytes symbolic: accepted exactly when (family, id) are those of a supported type, and
/// the accepted type re-encodes to a block with the same family/id that decodes to itself.
#[kani::proof]
fn sixteen_bytes_total() {
    let b: [u8; 16] = kani::any();
    let r = SignType::from_bytes(&b);
    let known = known_pair(b[0], b[1]);
    match &r {
        Ok(t) => {
            assert!(known.is_some(), "C19: a block with an unsupported family/id was accepted");
            assert!(*t == ALL_TYPES[known.unwrap()], "C19: block decoded to the wrong type");
            let tb = t.to_bytes();
            assert!(tb.len() == 16 && tb[0] == b[0] && tb[1] == b[1], "C19: accepted type re-encodes to a different family/id");
        }
        Err(SignTypeError::UnknownConfig { bytes }) => {
            assert!(known.is_none(), "C19: a block with a supported family/id was rejected");
            assert!(bytes_eq(bytes, &b), "C19: unknown-config error does not carry the block");
        }
        Err(_) => assert!(false, "C19: 16-byte block rejected with the wrong error"),
    }
    kani::cover!(r.is_ok(), "accepted");
    kani::cover!(r.is_err(), "rejected");
    kani::cover!(matches!(r, Ok(SignType::HorizonDash40x12)), "accepted horizon dash");
    std::mem::forget(r);
}

/// For a supported type: 16-byte block, decodes to itself, fields agree with dimensions().
fn block_consistent(t: SignType) {
    let b = t.to_bytes();
    assert!(b.len() == 16, "C19: configuration block is not 16 bytes");
    match SignType::from_bytes(b) {
        Ok(back) => assert!(back == t, "C19: block decodes to a different type"),
        Err(_) => assert!(false, "C19: a supported type's own block is rejected"),
    }
    let (w, h) = t.dimensions();
    if b[0] == 0x04 {
        let sum = b[5] as u32 + b[6] as u32 + b[7] as u32 + b[8] as u32;
        assert!(b[4] as u32 == h, "C19: Max3000 height byte disagrees with dimensions()");
        assert!(sum == w, "C19: Max3000 panel widths do not add up to the width of dimensions()");
        assert!(b[9] as u32 == 8 * ((h + 7) / 8), "C19: Max3000 bits-per-column byte disagrees with the height");
    } else if b[0] == 0x08 {
        assert!(b[5] as u32 == h, "C19: Horizon height byte disagrees with dimensions()");
        assert!(b[7] as u32 == w, "C19: Horizon width byte disagrees with dimensions()");
        assert!(b[8] as u32 * b[10] as u32 + b[9] as u32 * b[11] as u32 == w, "C19: Horizon W != A1*B1 + A2*B2");
    } else {
        assert!(false, "C19: block of a supported type has an unknown family byte");
    }
}

#[kani::proof]
fn every_type_consistent() {
    let i: usize = kani::any();
    kani::assume(i < NT);
    block_consistent(ALL_TYPES[i]);
    kani::cover!(i == 0, "first type");
    kani::cover!(i == NT - 1, "last type");
}

/// No two supported types share (family, id) — otherwise decoding could not be a bijection.
#[kani::proof]
fn ids_distinct() {
    let i: usize = kani::any();
    let j: usize = kani::any();
    kani::assume(i < NT && j < NT && i != j);
    let (a, b) = (ALL_TYPES[i].to_bytes(), ALL_TYPES[j].to_bytes());
    assert!(a.len() == 16 && b.len() == 16);
    assert!(!(a[0] == b[0] && a[1] == b[1]), "C19: two sign types share family and id bytes");
    kani::cover!(a[0] != b[0], "different families");
    kani::cover!(a[0] == b[0], "same family");
}

/// A virtual sign that is waiting for configuration derives exactly dimensions() from the block
/// of every supported type and records that type.
#[kani::proof]
fn virtual_sign_derives_dimensions() {
    let i: usize = kani::any();
    kani::assume(i < NT);
    let t = ALL_TYPES[i];
    let a = Address(kani::any());
    let mut s = VirtualSign::new(a, any_flip());
    let ack = s.process_message(&Message::RequestOperation(a, Operation::ReceiveConfig));
    assert!(ack.is_some());
    let r = s.process_message(&Message::SendData(Offset(0), Data::try_new(t.to_bytes()).unwrap()));
    assert!(r.is_none());
    let (_, chunks, w, h, _) = s.verif_parts();
    assert!((w, h) == t.dimensions(), "C19: virtual sign derives different dimensions from the block");
    assert!(s.sign_type() == Some(t), "C19: virtual sign records a different type");
    assert!(chunks == 1, "C19: configuration chunk not counted");
    kani::cover!(i == 0, "first type");
    kani::cover!(i == NT - 1, "last type");
    std::mem::forget(s);
}
