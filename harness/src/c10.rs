//! C10 — the controller follows the documented protocol for every possible sign reply.
//! Every reply is arbitrary (none, any report/ack from any address, unrelated message, bus
//! error); the bus asserts on line that each message sent is exactly what the reference
//! controller prescribes for the replies so far, and the outcome must match at the end.
use crate::ctl::*;
use crate::ctlrun::*;

fn unit(call: Call, max_polls: u8) -> (Res, Outcome) {
    let (res, bus) = run_unit(call, Replies::Arbitrary, true, true, max_polls);
    let b = bus.borrow();
    assert!(b.ctl.phase == Phase::Done, "C10: operation returned although the protocol prescribes further messages");
    assert!(outcome_matches(b.ctl.outcome, res), "C10: outcome (success / protocol error / bus error) differs from the documented protocol");
    let o = b.ctl.outcome;
    drop(b);
    std::mem::forget(bus);
    (res, o)
}

#[kani::proof]
#[kani::stub(std::fmt::format, crate::ctl::no_format)]
fn configure() {
    let (res, _) = unit(Call::Configure, 0);
    kani::cover!(res == Res::Ok, "success");
    kani::cover!(res == Res::Unexpected, "protocol error");
    kani::cover!(res == Res::Bus, "bus error");
}

#[kani::proof]
#[kani::stub(std::fmt::format, crate::ctl::no_format)]
fn configure_if_needed() {
    let (res, _) = unit(Call::ConfigureIfNeeded, 0);
    kani::cover!(res == Res::Ok, "success");
    kani::cover!(res == Res::Unexpected, "protocol error");
    kani::cover!(res == Res::Bus, "bus error");
}

fn switch<const K: u8>(call: Call) {
    let (res, _) = unit(call, K);
    kani::cover!(res == Res::Ok, "success");
    kani::cover!(res == Res::Unexpected, "protocol error");
    kani::cover!(res == Res::Bus, "bus error");
}
#[kani::proof]
#[kani::stub(std::fmt::format, crate::ctl::no_format)]
fn show_loaded_page_k3() {
    switch::<3>(Call::ShowLoadedPage);
}
#[kani::proof]
#[kani::stub(std::fmt::format, crate::ctl::no_format)]
fn load_next_page_k3() {
    switch::<3>(Call::LoadNextPage);
}
#[kani::proof]
#[kani::stub(std::fmt::format, crate::ctl::no_format)]
fn show_loaded_page_k6() {
    switch::<6>(Call::ShowLoadedPage);
}
#[kani::proof]
#[kani::stub(std::fmt::format, crate::ctl::no_format)]
fn load_next_page_k6() {
    switch::<6>(Call::LoadNextPage);
}

#[kani::proof]
#[kani::stub(std::fmt::format, crate::ctl::no_format)]
fn shut_down() {
    let (res, _) = unit(Call::ShutDown, 0);
    kani::cover!(res == Res::Ok, "success");
    kani::cover!(res == Res::Unexpected, "protocol error");
    kani::cover!(res == Res::Bus, "bus error");
}

fn pages<const P: usize, const ILEN: usize>(w: u32, h: u32, att: u8) -> Res {
    let (res, bus) = run_pages::<P, ILEN>(w, h, Replies::Arbitrary, true, true, att);
    let b = bus.borrow();
    assert!(b.ctl.phase == Phase::Done, "C10: send_pages returned although the protocol prescribes further messages");
    assert!(outcome_matches(b.ctl.outcome, res), "C10: send_pages outcome differs from the documented protocol");
    drop(b);
    std::mem::forget(bus);
    res
}
macro_rules! pages {
    ($name:ident, $p:expr, $ilen:expr, $w:expr, $h:expr, $att:expr) => {
        #[kani::proof]
        #[kani::stub(std::fmt::format, crate::ctl::no_format)]
        fn $name() {
            let res = pages::<$p, $ilen>($w, $h, $att);
            kani::cover!(res == Res::OkManual, "success, manual");
            kani::cover!(res == Res::OkAutomatic, "success, automatic");
            kani::cover!(res == Res::Unexpected, "protocol error");
            kani::cover!(res == Res::Bus, "bus error");
        }
    };
}
pages!(send_pages_p0, 0, 16, 12, 8, 3);
pages!(send_pages_p1_16, 1, 16, 12, 8, 3);
pages!(send_pages_p1_48, 1, 48, 30, 7, 3);
pages!(send_pages_p2_16, 2, 16, 12, 8, 3);
pages!(send_pages_p1_16_a1, 1, 16, 12, 8, 1);
pages!(send_pages_p1_32_a1, 1, 32, 28, 8, 1);
pages!(send_pages_p1_48_a1, 1, 48, 30, 7, 1);
pages!(send_pages_p2_16_a1, 2, 16, 12, 8, 1);

/// Quick-tier variant of `configure`: one sign type, conversations limited to the first transfer
/// attempt (the retry logic is shared with send_pages, which is explored with all three attempts).
#[kani::proof]
#[kani::stub(std::fmt::format, crate::ctl::no_format)]
fn configure_a1() {
    let (res, bus) = run_unit_bounded(Call::Configure, Replies::Arbitrary, true, true, 0, 1, true);
    let b = bus.borrow();
    assert!(b.ctl.phase == Phase::Done, "C10: operation returned although the protocol prescribes further messages");
    assert!(outcome_matches(b.ctl.outcome, res), "C10: outcome (success / protocol error / bus error) differs from the documented protocol");
    kani::cover!(res == Res::Ok, "success");
    kani::cover!(res == Res::Unexpected, "protocol error");
    kani::cover!(res == Res::Bus, "bus error");
    drop(b);
    std::mem::forget(bus);
}
