//! C11 — no unconfirmed success, fail-stop, bounded retries, own address only.
//! Same arbitrary-reply bus as C10 but only the invariants are asserted (no message-by-message
//! comparison), so a protocol-preserving change of the conversation does not alarm.
use crate::ctl::*;
use crate::ctlrun::*;

fn invariants<const P: usize, const ILEN: usize>(b: &SymBus<P, ILEN>, res: Res, transfer: bool) {
    let ok = matches!(res, Res::Ok | Res::OkManual | Res::OkAutomatic);
    // (2) fail-stop
    assert!(!b.sent_after_dead, "C11: a message was sent after a reply the protocol does not allow (or a bus error)");
    if b.dead {
        assert!(!ok, "C11: success reported although a reply was not allowed by the protocol or the bus failed");
        assert!(outcome_matches(b.ctl.outcome, res), "C11: protocol error and bus error are confused");
    }
    // (4) own address on everything addressed
    assert!(!b.foreign_address_sent, "C11: an addressed message carried another address");
    // (3) bounded attempts
    assert!(b.ctl.receive_requests <= 3, "C11: more than three transfer attempts");
    // (1)+(5) success only on the sign's own confirmation
    if ok {
        assert!(matches!(b.ctl.outcome, Outcome::Ok | Outcome::OkManual | Outcome::OkAutomatic), "C11: success although a reply the success depends on did not come from the sign's own address / was not the required one");
        if transfer && b.ctl.receive_requests > 0 {
            assert!(b.ctl.last_query_was_own_success, "C11: success without the own 'received' report concluding the final attempt");
        }
    }
}

fn unit(call: Call, max_polls: u8, transfer: bool) -> Res {
    let (res, bus) = run_unit(call, Replies::Arbitrary, false, false, max_polls);
    let b = bus.borrow();
    invariants(&b, res, transfer);
    let (rr, dead) = (b.ctl.receive_requests, b.dead);
    kani::cover!(rr == 3, "three attempts");
    kani::cover!(dead, "stopped on a disallowed reply or bus error");
    drop(b);
    std::mem::forget(bus);
    res
}

#[kani::proof]
#[kani::stub(std::fmt::format, crate::ctl::no_format)]
fn configure() {
    let res = unit(Call::Configure, 0, true);
    kani::cover!(res == Res::Ok, "success");
}
#[kani::proof]
#[kani::stub(std::fmt::format, crate::ctl::no_format)]
fn configure_if_needed() {
    let res = unit(Call::ConfigureIfNeeded, 0, true);
    kani::cover!(res == Res::Ok, "success");
}
#[kani::proof]
#[kani::stub(std::fmt::format, crate::ctl::no_format)]
fn shut_down() {
    let (res, bus) = run_unit(Call::ShutDown, Replies::Arbitrary, false, false, 0);
    let b = bus.borrow();
    invariants(&b, res, false);
    kani::cover!(res == Res::Ok, "success");
    kani::cover!(b.dead, "stopped");
    drop(b);
    std::mem::forget(bus);
}
#[kani::proof]
#[kani::stub(std::fmt::format, crate::ctl::no_format)]
fn show_loaded_page_k3() {
    let (res, bus) = run_unit(Call::ShowLoadedPage, Replies::Arbitrary, false, false, 3);
    let b = bus.borrow();
    invariants(&b, res, false);
    kani::cover!(res == Res::Ok, "success");
    kani::cover!(b.dead, "stopped");
    drop(b);
    std::mem::forget(bus);
}
#[kani::proof]
#[kani::stub(std::fmt::format, crate::ctl::no_format)]
fn load_next_page_k3() {
    let (res, bus) = run_unit(Call::LoadNextPage, Replies::Arbitrary, false, false, 3);
    let b = bus.borrow();
    invariants(&b, res, false);
    kani::cover!(res == Res::Ok, "success");
    kani::cover!(b.dead, "stopped");
    drop(b);
    std::mem::forget(bus);
}

fn pages<const P: usize, const ILEN: usize>(w: u32, h: u32, att: u8) -> Res {
    let (res, bus) = run_pages::<P, ILEN>(w, h, Replies::Arbitrary, false, false, att);
    let b = bus.borrow();
    invariants(&b, res, true);
    let (rr, dead) = (b.ctl.receive_requests, b.dead);
    kani::cover!(dead, "stopped on a disallowed reply or bus error");
    drop(b);
    std::mem::forget(bus);
    res
}
macro_rules! pages {
    ($name:ident, $p:expr, $ilen:expr, $w:expr, $h:expr, $att:expr) => {
        #[kani::proof]
        #[kani::stub(std::fmt::format, crate::ctl::no_format)]
        fn $name() {
            let res = pages::<$p, $ilen>($w, $h, $att);
            kani::cover!(matches!(res, Res::OkManual | Res::OkAutomatic), "success");
        }
    };
}
pages!(send_pages_p0, 0, 16, 12, 8, 3);
pages!(send_pages_p1_16, 1, 16, 12, 8, 3);
pages!(send_pages_p1_48, 1, 48, 30, 7, 3);
pages!(send_pages_p2_16, 2, 16, 12, 8, 3);
pages!(send_pages_p1_16_a1, 1, 16, 12, 8, 1);
pages!(send_pages_p1_32_a1, 1, 32, 28, 8, 1);
pages!(send_pages_p1_48_a1, 1, 48, 30, 7, 1);
pages!(send_pages_p2_16_a1, 2, 16, 12, 8, 1);

/// Quick-tier variant of `configure`: one sign type, first transfer attempt only.
#[kani::proof]
#[kani::stub(std::fmt::format, crate::ctl::no_format)]
fn configure_a1() {
    let (res, bus) = run_unit_bounded(Call::Configure, Replies::Arbitrary, false, false, 0, 1, true);
    let b = bus.borrow();
    invariants(&b, res, true);
    let dead = b.dead;
    kani::cover!(dead, "stopped on a disallowed reply or bus error");
    kani::cover!(res == Res::Ok, "success");
    drop(b);
    std::mem::forget(bus);
}
