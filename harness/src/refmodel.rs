//! Reference models (oracles).  Written from the documentation / the property statements only,
//! with no reference to how the implementation computes things.  Plain scalar code, no heap,
//! so they are cheap under CBMC and can also be compiled natively.

/// Kinds of protocol message, per the protocol code table of property C04.
#[derive(Debug, Clone, Copy, PartialEq, Eq)]
pub enum Kind {
    SendData,
    DataChunksSent,
    Hello,
    QueryState,
    Goodbye,
    ReportState(u8),      // index into STATE_CODES
    RequestOperation(u8), // index into REQ_CODES
    AckOperation(u8),     // index into ACK_CODES
    PixelsComplete,
    Unknown,
}

/// The 13 state codes, in the order of the `State` enum's documentation.
pub const STATE_CODES: [u8; 13] = [0x0F, 0x0D, 0x07, 0x0C, 0x03, 0x01, 0x0B, 0x10, 0x13, 0x12, 0x11, 0x00, 0x08];
/// Operation request codes: ReceiveConfig, ReceivePixels, ShowLoadedPage, LoadNextPage, StartReset, FinishReset.
pub const REQ_CODES: [u8; 6] = [0xA1, 0xA2, 0xA9, 0xAA, 0xA6, 0xA7];
/// Operation acknowledgement codes, same order.
pub const ACK_CODES: [u8; 6] = [0x95, 0x91, 0x96, 0x97, 0x93, 0x94];

fn index_of(table: &[u8], code: u8) -> Option<u8> {
    let mut i = 0;
    while i < table.len() {
        if table[i] == code {
            return Some(i as u8);
        }
        i += 1;
    }
    None
}

/// Protocol table: (message type, data length, first data byte) -> kind.
/// "data chunk: type 0" (any length); "chunk count: type 1 empty"; hello/query/goodbye: type 2
/// with FF/00/55; requests type 3; states type 4; acks type 5; pixels complete type 6 with 00.
pub fn ref_kind(msg_type: u8, len: usize, first: u8) -> Kind {
    if msg_type == 0 {
        return Kind::SendData;
    }
    if msg_type == 1 && len == 0 {
        return Kind::DataChunksSent;
    }
    if len != 1 {
        return Kind::Unknown;
    }
    match msg_type {
        2 => match first {
            0xFF => Kind::Hello,
            0x00 => Kind::QueryState,
            0x55 => Kind::Goodbye,
            _ => Kind::Unknown,
        },
        3 => match index_of(&REQ_CODES, first) {
            Some(i) => Kind::RequestOperation(i),
            None => Kind::Unknown,
        },
        4 => match index_of(&STATE_CODES, first) {
            Some(i) => Kind::ReportState(i),
            None => Kind::Unknown,
        },
        5 => match index_of(&ACK_CODES, first) {
            Some(i) => Kind::AckOperation(i),
            None => Kind::Unknown,
        },
        6 => {
            if first == 0 {
                Kind::PixelsComplete
            } else {
                Kind::Unknown
            }
        }
        _ => Kind::Unknown,
    }
}

pub const HEX_UPPER: &[u8; 16] = b"0123456789ABCDEF";

/// Value of an ASCII hex digit of either case.
pub fn hex_val(c: u8) -> Option<u8> {
    match c {
        b'0'..=b'9' => Some(c - b'0'),
        b'a'..=b'f' => Some(c - b'a' + 10),
        b'A'..=b'F' => Some(c - b'A' + 10),
        _ => None,
    }
}

/// Page layout arithmetic from the "Format Details" of page.rs, in u64 so nothing wraps for u32 inputs.
pub fn ref_bpc(h: u32) -> u64 {
    (h as u64 + 7) / 8
}
pub fn ref_data_bytes(w: u32, h: u32) -> u64 {
    4 + w as u64 * ref_bpc(h)
}
pub fn ref_total_bytes(w: u32, h: u32) -> u64 {
    (ref_data_bytes(w, h) + 15) / 16 * 16
}
pub fn ref_byte_index(h: u32, x: u32, y: u32) -> u64 {
    4 + x as u64 * ref_bpc(h) + (y as u64) / 8
}
pub fn ref_bit_index(y: u32) -> u8 {
    (y % 8) as u8
}

// ------------------------------------------------------------------------------------------------
// Sign-side protocol state machine (properties C13 / C14), over scalars only.
// State indices follow the documentation order of `State`:
// 0 Unconfigured, 1 ConfigInProgress, 2 ConfigReceived, 3 ConfigFailed, 4 PixelsInProgress,
// 5 PixelsReceived, 6 PixelsFailed, 7 PageLoaded, 8 PageLoadInProgress, 9 PageShown,
// 10 PageShowInProgress, 11 ShowingPages, 12 ReadyToReset.
// Operation indices: 0 ReceiveConfig, 1 ReceivePixels, 2 ShowLoadedPage, 3 LoadNextPage,
// 4 StartReset, 5 FinishReset.

#[derive(Debug, Clone, Copy, PartialEq, Eq)]
pub struct RefSign {
    pub addr: u16,
    pub automatic: bool,
    pub state: u8,
    pub w: u32,
    pub h: u32,
    pub chunks: u16,
    pub pend_len: usize,
    pub npages: usize,
}

#[derive(Debug, Clone, Copy, PartialEq, Eq)]
pub enum RefMsg {
    Hello(u16),
    Query(u16),
    Request(u16, u8),
    /// offset, length, and (only meaningful when length == 16) the bytes 0,4,5,6,7,8 of the block
    SendData { offset: u16, len: usize, b0: u8, b4: u8, b5: u8, b6: u8, b7: u8, b8: u8 },
    ChunksSent(u16),
    PixelsComplete(u16),
    Goodbye(u16),
    /// anything a sign never reacts to (reports, acknowledgements, unknown frames)
    Other,
}

#[derive(Debug, Clone, Copy, PartialEq, Eq)]
pub enum RefReply {
    None,
    Report(u16, u8),
    Ack(u16, u8),
}

/// What happens to the stored pages / pending buffer / recorded type in one step.
#[derive(Debug, Clone, Copy, PartialEq, Eq)]
pub enum RefEffect {
    /// nothing but the scalar fields may change
    Keep,
    /// pages, pending data, type all cleared (reset / goodbye)
    Blank,
    /// stored pages cleared (new pixel transfer acknowledged)
    ClearPages,
    /// configuration block accepted: type recorded from the block
    Configured,
    /// pixel chunk accepted: if `flush_first`, the pending buffer is first turned into a page
    /// (when it is a complete page of the configured size) or dropped; then the chunk is appended
    Append { flush_first: bool },
    /// the pending buffer is turned into a page (if complete) or dropped
    Flush,
}

fn op_legal(op: u8, state: u8) -> bool {
    match op {
        0 => state == 0 || state == 3,
        1 => state == 2 || state == 6 || state == 7 || state == 8 || state == 9 || state == 10 || state == 11,
        2 => state == 7,
        3 => state == 9,
        4 => true,
        5 => state == 12,
        _ => false,
    }
}

fn blank(s: &mut RefSign) {
    s.state = 0;
    s.w = 0;
    s.h = 0;
    s.chunks = 0;
    s.pend_len = 0;
    s.npages = 0;
}

/// Is the pending buffer a complete page of the configured size?
pub fn pending_is_page(s: &RefSign) -> bool {
    s.pend_len > 0 && s.w > 0 && s.h > 0 && s.pend_len as u64 == ref_total_bytes(s.w, s.h)
}

pub fn ref_sign_step(s: &mut RefSign, m: RefMsg) -> (RefReply, RefEffect) {
    match m {
        RefMsg::Hello(a) | RefMsg::Query(a) => {
            if a != s.addr {
                return (RefReply::None, RefEffect::Keep);
            }
            let reported = s.state;
            if s.state == 8 {
                s.state = 7;
            } else if s.state == 10 {
                s.state = 9;
            }
            (RefReply::Report(s.addr, reported), RefEffect::Keep)
        }
        RefMsg::Request(a, op) => {
            if a != s.addr || !op_legal(op, s.state) {
                return (RefReply::None, RefEffect::Keep);
            }
            let eff = match op {
                0 => {
                    s.state = 1;
                    RefEffect::Keep
                }
                1 => {
                    s.state = 4;
                    s.npages = 0;
                    RefEffect::ClearPages
                }
                2 => {
                    s.state = 10;
                    RefEffect::Keep
                }
                3 => {
                    s.state = 8;
                    RefEffect::Keep
                }
                4 => {
                    s.state = 12;
                    RefEffect::Keep
                }
                _ => {
                    blank(s);
                    RefEffect::Blank
                }
            };
            (RefReply::Ack(s.addr, op), eff)
        }
        RefMsg::Goodbye(a) => {
            if a != s.addr {
                return (RefReply::None, RefEffect::Keep);
            }
            blank(s);
            (RefReply::None, RefEffect::Blank)
        }
        RefMsg::PixelsComplete(a) => {
            if a == s.addr && s.state == 5 {
                s.state = if s.automatic { 11 } else { 7 };
            }
            (RefReply::None, RefEffect::Keep)
        }
        RefMsg::SendData { offset, len, b0, b4, b5, b6, b7, b8 } => {
            if s.state == 1 && offset == 0 && len == 16 && (b0 == 0x04 || b0 == 0x08) {
                if b0 == 0x04 {
                    s.w = b5 as u32 + b6 as u32 + b7 as u32 + b8 as u32;
                    s.h = b4 as u32;
                } else {
                    s.w = b7 as u32;
                    s.h = b5 as u32;
                }
                s.chunks = s.chunks.wrapping_add(1);
                return (RefReply::None, RefEffect::Configured);
            }
            if s.state == 4 {
                let flush_first = offset == 0;
                if flush_first {
                    if pending_is_page(s) {
                        s.npages += 1;
                    }
                    s.pend_len = 0;
                }
                s.pend_len += len;
                s.chunks = s.chunks.wrapping_add(1);
                return (RefReply::None, RefEffect::Append { flush_first });
            }
            (RefReply::None, RefEffect::Keep)
        }
        RefMsg::ChunksSent(c) => {
            if s.state == 1 {
                s.state = if c == s.chunks { 2 } else { 3 };
                s.chunks = 0;
                return (RefReply::None, RefEffect::Keep);
            }
            if s.state == 4 {
                s.state = if c == s.chunks { 5 } else { 6 };
                s.chunks = 0;
                if pending_is_page(s) {
                    s.npages += 1;
                }
                s.pend_len = 0;
                return (RefReply::None, RefEffect::Flush);
            }
            // Not receiving: an unaddressed chunk count is none of this sign's business.
            (RefReply::None, RefEffect::Keep)
        }
        RefMsg::Other => (RefReply::None, RefEffect::Keep),
    }
}

// ------------------------------------------------------------------------------------------------
// Frame text format (frame.rs "Format Details"): ':' LL AAAA TT DD.. CC [CR LF], hex pairs,
// LL = number of data bytes, CC = two's complement of the sum of all other bytes (LRC).

/// Hex end offset if `b` has the documented shape (':' + >=5 hex pairs + optional single CRLF).
pub fn ref_shape_end(b: &[u8]) -> Option<usize> {
    regex::contract::ref_shape_end(b)
}

pub fn ref_pair(b: &[u8], i: usize) -> u8 {
    let hi = match hex_val(b[i]) {
        Some(v) => v,
        None => 0,
    };
    let lo = match hex_val(b[i + 1]) {
        Some(v) => v,
        None => 0,
    };
    hi * 16 + lo
}

#[derive(Debug, Clone, Copy, PartialEq, Eq)]
pub enum RefDecode {
    Malformed,
    LenMismatch { declared: usize, actual: usize },
    BadChecksum { declared: u8, computed: u8 },
    /// data byte i is `ref_pair(b, 9 + 2*i)`
    Ok { addr: u16, ty: u8, n: usize },
}

/// Independent decoder: shape, then declared length, then checksum — in that order.
pub fn ref_decode(b: &[u8]) -> RefDecode {
    let end = match ref_shape_end(b) {
        Some(e) => e,
        None => return RefDecode::Malformed,
    };
    let n = (end - 11) / 2;
    let declared = ref_pair(b, 1);
    if declared as usize != n {
        return RefDecode::LenMismatch { declared: declared as usize, actual: n };
    }
    let mut sum: u8 = 0;
    let mut i = 1;
    while i < end - 2 {
        sum = sum.wrapping_add(ref_pair(b, i));
        i += 2;
    }
    let computed = 0u8.wrapping_sub(sum);
    let given = ref_pair(b, end - 2);
    if computed != given {
        return RefDecode::BadChecksum { declared: given, computed };
    }
    RefDecode::Ok { addr: (ref_pair(b, 3) as u16) << 8 | ref_pair(b, 5) as u16, ty: ref_pair(b, 7), n }
}

/// Reference encoder into a caller-provided buffer of exactly 11 + 2*data.len() bytes.
pub fn ref_encode(addr: u16, ty: u8, data: &[u8], out: &mut [u8]) {
    let n = data.len();
    out[0] = b':';
    let mut sum: u32 = 0;
    let mut put = |out: &mut [u8], pos: usize, v: u8| {
        out[pos] = HEX_UPPER[(v >> 4) as usize];
        out[pos + 1] = HEX_UPPER[(v & 15) as usize];
    };
    put(out, 1, n as u8);
    put(out, 3, (addr >> 8) as u8);
    put(out, 5, (addr & 0xFF) as u8);
    put(out, 7, ty);
    sum += (n as u8) as u32 + (addr >> 8) as u32 + (addr & 0xFF) as u32 + ty as u32;
    let mut i = 0;
    while i < n {
        put(out, 9 + 2 * i, data[i]);
        sum += data[i] as u32;
        i += 1;
    }
    // the checksum is the byte that makes everything add up to 0 mod 256
    let c = ((256 - (sum % 256)) % 256) as u8;
    put(out, 9 + 2 * n, c);
}

pub fn to_upper_hex(c: u8) -> u8 {
    if c >= b'a' && c <= b'f' {
        c - 32
    } else {
        c
    }
}
