//! Reference models (oracles).  Written from the documentation / the property statements only,
//! with no reference to how the implementation computes things.  Plain scalar code, no heap,
//! so they are cheap under CBMC and can also be compiled natively.

/// Kinds of protocol message, per the protocol code table of property C04.
#[derive(Debug, Clone, Copy, PartialEq, Eq)]
pub enum Kind {
    SendData,
    DataChunksSent,
    Hello,
    QueryState,
    Goodbye,
    ReportState(u8),      // index into STATE_CODES
    RequestOperation(u8), // index into REQ_CODES
    AckOperation(u8),     // index into ACK_CODES
    PixelsComplete,
    Unknown,
}

/// The 13 state codes, in the order of the `State` enum's documentation.
pub const STATE_CODES: [u8; 13] = [0x0F, 0x0D, 0x07, 0x0C, 0x03, 0x01, 0x0B, 0x10, 0x13, 0x12, 0x11, 0x00, 0x08];
/// Operation request codes: ReceiveConfig, ReceivePixels, ShowLoadedPage, LoadNextPage, StartReset, FinishReset.
pub const REQ_CODES: [u8; 6] = [0xA1, 0xA2, 0xA9, 0xAA, 0xA6, 0xA7];
/// Operation acknowledgement codes, same order.
pub const ACK_CODES: [u8; 6] = [0x95, 0x91, 0x96, 0x97, 0x93, 0x94];

fn index_of(table: &[u8], code: u8) -> Option<u8> {
    let mut i = 0;
    while i < table.len() {
        if table[i] == code {
            return Some(i as u8);
        }
        i += 1;
    }
    None
}

/// Protocol table: (message type, data length, first data byte) -> kind.
/// "data chunk: type 0" (any length); "chunk count: type 1 empty"; hello/query/goodbye: type 2
/// with FF/00/55; requests type 3; states type 4; acks type 5; pixels complete type 6 with 00.
pub fn ref_kind(msg_type: u8, len: usize, first: u8) -> Kind {
    if msg_type == 0 {
        return Kind::SendData;
    }
    if msg_type == 1 && len == 0 {
        return Kind::DataChunksSent;
    }
    if len != 1 {
        return Kind::Unknown;
    }
    match msg_type {
        2 => match first {
            0xFF => Kind::Hello,
            0x00 => Kind::QueryState,
            0x55 => Kind::Goodbye,
            _ => Kind::Unknown,
        },
        3 => match index_of(&REQ_CODES, first) {
            Some(i) => Kind::RequestOperation(i),
            None => Kind::Unknown,
        },
        4 => match index_of(&STATE_CODES, first) {
            Some(i) => Kind::ReportState(i),
            None => Kind::Unknown,
        },
        5 => match index_of(&ACK_CODES, first) {
            Some(i) => Kind::AckOperation(i),
            None => Kind::Unknown,
        },
        6 => {
            if first == 0 {
                Kind::PixelsComplete
            } else {
                Kind::Unknown
            }
        }
        _ => Kind::Unknown,
    }
}

pub const HEX_UPPER: &[u8; 16] = b"0123456789ABCDEF";

/// Value of an ASCII hex digit of either case.
pub fn hex_val(c: u8) -> Option<u8> {
    match c {
        b'0'..=b'9' => Some(c - b'0'),
        b'a'..=b'f' => Some(c - b'a' + 10),
        b'A'..=b'F' => Some(c - b'A' + 10),
        _ => None,
    }
}

/// Page layout arithmetic from the "Format Details" of page.rs, in u64 so nothing wraps for u32 inputs.
pub fn ref_bpc(h: u32) -> u64 {
    (h as u64 + 7) / 8
}
pub fn ref_data_bytes(w: u32, h: u32) -> u64 {
    4 + w as u64 * ref_bpc(h)
}
pub fn ref_total_bytes(w: u32, h: u32) -> u64 {
    (ref_data_bytes(w, h) + 15) / 16 * 16
}
pub fn ref_byte_index(h: u32, x: u32, y: u32) -> u64 {
    4 + x as u64 * ref_bpc(h) + (y as u64) / 8
}
pub fn ref_bit_index(y: u32) -> u8 {
    (y % 8) as u8
}
