//! C05 — every specific message survives the trip through its frame; distinct messages get distinct frames.
use crate::util::*;
use flipdot_core::{Address, ChunkCount, Data, Frame, Message, MsgType, Offset};

/// (i) plain (heap-free) messages: all kinds, all 16-bit fields, all states / operations.
#[kani::proof]
fn plain_roundtrip() {
    let m = any_plain_message();
    let orig = m.clone();
    let f = Frame::from(m);
    let back = Message::from(f);
    assert!(back == orig, "C05: message changed by the trip through its frame");
    kani::cover!(matches!(orig, Message::DataChunksSent(_)), "chunk count");
    kani::cover!(matches!(orig, Message::Hello(_)), "hello");
    kani::cover!(matches!(orig, Message::QueryState(_)), "query");
    kani::cover!(matches!(orig, Message::ReportState(_, _)), "report");
    kani::cover!(matches!(orig, Message::RequestOperation(_, _)), "request");
    kani::cover!(matches!(orig, Message::AckOperation(_, _)), "ack");
    kani::cover!(matches!(orig, Message::PixelsComplete(_)), "pixels complete");
    kani::cover!(matches!(orig, Message::Goodbye(_)), "goodbye");
}

fn send_data<const L: usize>(owned: bool) {
    let d: [u8; L] = kani::any();
    let off: u16 = kani::any();
    let data = if owned { Data::try_new(d.to_vec()).unwrap() } else { Data::try_new(&d[..]).unwrap() };
    let m = Message::SendData(Offset(off), data);
    let f = Frame::from(m);
    assert!(f.message_type() == MsgType(0) && f.address() == Address(off) && bytes_eq(f.data(), &d), "C05: data chunk frame wrong");
    let back = Message::from(f);
    match &back {
        Message::SendData(o, data) => {
            assert!(o.0 == off, "C05: offset changed");
            assert!(bytes_eq(data.get(), &d), "C05: data changed");
        }
        _ => assert!(false, "C05: data chunk did not come back as a data chunk"),
    }
    kani::cover!(true, "reached end");
}

macro_rules! fam {
    ($name:ident, $l:expr, $owned:expr) => {
        #[kani::proof]
        fn $name() {
            send_data::<$l>($owned);
        }
    };
}
fam!(send_data_l0, 0, false);
fam!(send_data_l1, 1, false);
fam!(send_data_l2, 2, false);
fam!(send_data_l15, 15, false);
fam!(send_data_l16, 16, false);
fam!(send_data_l17, 17, false);
fam!(send_data_l255, 255, false);
fam!(send_data_owned_l0, 0, true);
fam!(send_data_owned_l1, 1, true);
fam!(send_data_owned_l16, 16, true);

/// (ii) injectivity on plain messages: two different messages never share a frame.
#[kani::proof]
fn injective_plain() {
    let m1 = any_plain_message();
    let m2 = any_plain_message();
    kani::assume(m1 != m2);
    let f1 = Frame::from(m1);
    let f2 = Frame::from(m2);
    let same = f1.address() == f2.address() && f1.message_type() == f2.message_type() && bytes_eq(f1.data(), f2.data());
    assert!(!same, "C05: two different messages share a wire frame");
    kani::cover!(f1.message_type() == f2.message_type() && f1.address() == f2.address(), "same type and address, different data");
    kani::cover!(f1.message_type() != f2.message_type(), "different types");
}

/// (ii) a data chunk never shares a frame with a plain message, nor with a different data chunk.
fn injective_data<const L1: usize, const L2: usize>() {
    let d1: [u8; L1] = kani::any();
    let d2: [u8; L2] = kani::any();
    let o1: u16 = kani::any();
    let o2: u16 = kani::any();
    let m1 = Message::SendData(Offset(o1), Data::try_new(&d1[..]).unwrap());
    let other_is_plain: bool = kani::any();
    let m2 = if other_is_plain { any_plain_message() } else { Message::SendData(Offset(o2), Data::try_new(&d2[..]).unwrap()) };
    kani::assume(m1 != m2);
    let f1 = Frame::from(m1);
    let f2 = Frame::from(m2);
    let same = f1.address() == f2.address() && f1.message_type() == f2.message_type() && bytes_eq(f1.data(), f2.data());
    assert!(!same, "C05: a data chunk shares its wire frame with a different message");
    kani::cover!(other_is_plain, "vs plain");
    kani::cover!(!other_is_plain, "vs data chunk");
}
#[kani::proof]
fn injective_data_0_0() {
    injective_data::<0, 0>();
}
#[kani::proof]
fn injective_data_0_1() {
    injective_data::<0, 1>();
}
#[kani::proof]
fn injective_data_1_1() {
    injective_data::<1, 1>();
}
#[kani::proof]
fn injective_data_2_2() {
    injective_data::<2, 2>();
}
#[kani::proof]
fn injective_data_3_3() {
    injective_data::<3, 3>();
}
