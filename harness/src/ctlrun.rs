//! Shared driver: run one controller operation of the real `Sign` against a `SymBus`.
use crate::ctl::*;
use crate::util::*;
use crate::vsign::SIGN_TYPES;
use flipdot::{Sign, SignError};
use flipdot_core::{Address, Page, PageFlipStyle, PageId, SignBus, SignType};
use std::cell::RefCell;
use std::rc::Rc;

#[derive(Debug, Clone, Copy, PartialEq, Eq)]
pub enum Res {
    Ok,
    OkManual,
    OkAutomatic,
    Unexpected,
    Bus,
}

pub fn class_unit(r: &Result<(), SignError>) -> Res {
    match r {
        Ok(()) => Res::Ok,
        Err(SignError::UnexpectedResponse { .. }) => Res::Unexpected,
        Err(SignError::Bus { .. }) => Res::Bus,
        Err(_) => Res::Unexpected,
    }
}
pub fn class_flip(r: &Result<PageFlipStyle, SignError>) -> Res {
    match r {
        Ok(PageFlipStyle::Manual) => Res::OkManual,
        Ok(PageFlipStyle::Automatic) => Res::OkAutomatic,
        Err(SignError::UnexpectedResponse { .. }) => Res::Unexpected,
        Err(SignError::Bus { .. }) => Res::Bus,
        Err(_) => Res::Unexpected,
    }
}

pub fn outcome_matches(o: Outcome, r: Res) -> bool {
    matches!(
        (o, r),
        (Outcome::Ok, Res::Ok) | (Outcome::OkManual, Res::OkManual) | (Outcome::OkAutomatic, Res::OkAutomatic) | (Outcome::Unexpected, Res::Unexpected) | (Outcome::Bus, Res::Bus)
    )
}

pub fn any_sign_type() -> SignType {
    let i: usize = kani::any();
    kani::assume(i < SIGN_TYPES.len());
    SIGN_TYPES[i]
}

pub fn config_item(t: SignType) -> [[u8; 16]; 1] {
    let b = t.to_bytes();
    let mut a = [0u8; 16];
    let mut i = 0;
    while i < 16 && i < b.len() {
        a[i] = b[i];
        i += 1;
    }
    [a]
}

/// Runs configure / configure_if_needed / show / load / shut_down (no page data involved).
pub fn run_unit(call: Call, replies: Replies, strict: bool, check_data: bool, max_polls: u8) -> (Res, Rc<RefCell<SymBus<1, 16>>>) {
    run_unit_bounded(call, replies, strict, check_data, max_polls, 3, false)
}

/// `max_attempts` < 3 limits the explored conversations to that many transfer attempts (the retry
/// logic lives in the shared `send_data` and is covered with all three attempts by the send_pages
/// harnesses); `one_type` fixes the sign type to Max3000Dash30x7 instead of a symbolic one.
pub fn run_unit_bounded(call: Call, replies: Replies, strict: bool, check_data: bool, max_polls: u8, max_attempts: u8, one_type: bool) -> (Res, Rc<RefCell<SymBus<1, 16>>>) {
    let own: u16 = kani::any();
    let t = if one_type { SignType::Max3000Dash30x7 } else { any_sign_type() };
    let mut sb = SymBus::<1, 16>::new(own, call, config_item(t), replies, strict, check_data, max_polls);
    sb.max_attempts = max_attempts;
    sb.rich = max_attempts >= 3;
    let bus = Rc::new(RefCell::new(sb));
    let dynbus: Rc<RefCell<dyn SignBus>> = bus.clone();
    let sign = Sign::new(dynbus, Address(own), t);
    let r = match call {
        Call::Configure => sign.configure(),
        Call::ConfigureIfNeeded => sign.configure_if_needed(),
        Call::ShowLoadedPage => sign.show_loaded_page(),
        Call::LoadNextPage => sign.load_next_page(),
        _ => sign.shut_down(),
    };
    let res = class_unit(&r);
    std::mem::forget(r);
    std::mem::forget(sign);
    (res, bus)
}

/// Runs send_pages with P pages of W x H (ILEN bytes each, all bytes symbolic).
pub fn run_pages<const P: usize, const ILEN: usize>(w: u32, h: u32, replies: Replies, strict: bool, check_data: bool, max_attempts: u8) -> (Res, Rc<RefCell<SymBus<P, ILEN>>>) {
    let own: u16 = kani::any();
    let items: [[u8; ILEN]; P] = kani::any();
    let mut pages: Vec<Page<'static>> = Vec::with_capacity(P);
    let mut i = 0;
    while i < P {
        pages.push(Page::from_bytes(w, h, items[i].to_vec()).unwrap());
        i += 1;
    }
    let mut sb = SymBus::<P, ILEN>::new(own, Call::SendPages, items, replies, strict, check_data, 0);
    sb.max_attempts = max_attempts;
    sb.rich = max_attempts >= 3;
    let bus = Rc::new(RefCell::new(sb));
    let dynbus: Rc<RefCell<dyn SignBus>> = bus.clone();
    let sign = Sign::new(dynbus, Address(own), any_sign_type());
    let r = sign.send_pages(&pages);
    let res = class_flip(&r);
    std::mem::forget(r);
    std::mem::forget(sign);
    std::mem::forget(pages);
    (res, bus)
}
