//! Instrumented byte streams and serial port with symbolic behaviour (C15, C16, C17, C18).
use serial_core::{PortSettings, SerialDevice};
use std::io::{self, Read, Write};
use std::time::Duration;

// ------------------------------------------------------------------------------------------------
// virtual clock: thread::sleep is replaced by this (kani::stub), events are numbered in order

pub const EV_WRITE: u8 = 1; // a write call completed
pub const EV_READ_LF: u8 = 2; // the read that delivered a line feed completed
pub const EV_SLEEP: u8 = 3; // thread::sleep(d) was called
pub const MAX_EV: usize = 12;

pub static mut EV_KIND: [u8; MAX_EV] = [0; MAX_EV];
pub static mut EV_MS: [u64; MAX_EV] = [0; MAX_EV];
pub static mut EV_N: usize = 0;

pub fn ev_reset() {
    unsafe {
        EV_N = 0;
        EV_KIND = [0; MAX_EV];
        EV_MS = [0; MAX_EV];
    }
}
pub fn ev_push(kind: u8, ms: u64) {
    unsafe {
        if EV_N < MAX_EV {
            EV_KIND[EV_N] = kind;
            EV_MS[EV_N] = ms;
        }
        EV_N += 1;
    }
}
pub fn ev_count() -> usize {
    unsafe { EV_N }
}
pub fn ev_count_kind(kind: u8) -> usize {
    let mut n = 0;
    let mut i = 0;
    let top = if ev_count() < MAX_EV { ev_count() } else { MAX_EV };
    while i < top {
        if unsafe { EV_KIND[i] } == kind {
            n += 1;
        }
        i += 1;
    }
    n
}
/// Mirror of the bytes handed to the most recent successful write call (the Odk owns its port and
/// offers no accessor, so the writer reports here).
pub static mut LAST_WRITE: [u8; 32] = [0; 32];
pub static mut LAST_WRITE_LEN: usize = 0;
pub fn last_write_len() -> usize {
    unsafe { LAST_WRITE_LEN }
}
pub fn last_write_byte(i: usize) -> u8 {
    unsafe { LAST_WRITE[i] }
}
pub fn ev_get(i: usize) -> (u8, u64) {
    unsafe { (EV_KIND[i], EV_MS[i]) }
}

/// Stand-in for std::thread::sleep: advances the virtual clock (records the request).
pub fn fake_sleep(d: Duration) {
    let ms = d.as_secs() * 1000 + (d.subsec_nanos() / 1_000_000) as u64;
    ev_push(EV_SLEEP, ms);
}

// ------------------------------------------------------------------------------------------------
// reader

/// Byte source over a fixed tape.  Per call it may report `Interrupted` (at most `intr_left`
/// times, symbolic placement), fail hard at call number `fail_at`, or deliver between 1 and
/// min(requested, available, symbolic fragment size) bytes.
pub struct SymReader<const LEN: usize> {
    pub tape: [u8; LEN],
    pub pos: usize,
    pub calls: u32,
    pub max_request: usize,
    pub intr_left: u8,
    pub fail_at: u32, // u32::MAX = never
    pub one_byte: bool,
    /// concrete schedule: call number i reports Interrupted iff bit i is set
    pub intr_mask: u64,
    /// deliver min(requested, available) bytes (punishes reading ahead); no symbolic choice
    pub greedy: bool,
}

impl<const LEN: usize> SymReader<LEN> {
    pub fn new(tape: [u8; LEN], intr: u8, fail_at: u32, one_byte: bool) -> Self {
        SymReader { tape, pos: 0, calls: 0, max_request: 0, intr_left: intr, fail_at, one_byte, intr_mask: 0, greedy: false }
    }
}

impl<const LEN: usize> Read for SymReader<LEN> {
    fn read(&mut self, buf: &mut [u8]) -> io::Result<usize> {
        let call = self.calls;
        self.calls += 1;
        if buf.len() > self.max_request {
            self.max_request = buf.len();
        }
        if call == self.fail_at {
            return Err(io::Error::from(io::ErrorKind::BrokenPipe));
        }
        if call < 64 && (self.intr_mask >> call) & 1 == 1 {
            return Err(io::Error::from(io::ErrorKind::Interrupted));
        }
        if self.intr_left > 0 && kani::any() {
            self.intr_left -= 1;
            return Err(io::Error::from(io::ErrorKind::Interrupted));
        }
        let avail = LEN - self.pos;
        if avail == 0 || buf.is_empty() {
            return Ok(0);
        }
        let mut n = if buf.len() < avail { buf.len() } else { avail };
        if self.one_byte {
            n = 1;
        } else if !self.greedy {
            let f: usize = kani::any();
            kani::assume(f >= 1 && f <= n);
            n = f;
        }
        let mut i = 0;
        let mut saw_lf = false;
        while i < n {
            buf[i] = self.tape[self.pos + i];
            if buf[i] == b'\n' {
                saw_lf = true;
            }
            i += 1;
        }
        self.pos += n;
        if saw_lf {
            ev_push(EV_READ_LF, 0);
        }
        Ok(n)
    }
}

// ------------------------------------------------------------------------------------------------
// writer

pub struct SymWriter<const CAP: usize> {
    pub got: [u8; CAP],
    pub len: usize,
    pub calls: u32,
    pub intr_left: u8,
    pub fail_at: u32,
    pub overflow: bool,
    /// accept the whole buffer in one call (otherwise a symbolic 1..=len prefix)
    pub whole: bool,
    pub flushed_after_last_write: bool,
    pub intr_mask: u64,
    pub one_byte: bool,
}

impl<const CAP: usize> SymWriter<CAP> {
    pub fn new(intr: u8, fail_at: u32, whole: bool) -> Self {
        SymWriter { got: [0; CAP], len: 0, calls: 0, intr_left: intr, fail_at, overflow: false, whole, flushed_after_last_write: true, intr_mask: 0, one_byte: false }
    }
}

impl<const CAP: usize> Write for SymWriter<CAP> {
    fn write(&mut self, buf: &[u8]) -> io::Result<usize> {
        let call = self.calls;
        self.calls += 1;
        if call == self.fail_at {
            return Err(io::Error::from(io::ErrorKind::BrokenPipe));
        }
        if call < 64 && (self.intr_mask >> call) & 1 == 1 {
            return Err(io::Error::from(io::ErrorKind::Interrupted));
        }
        if self.intr_left > 0 && kani::any() {
            self.intr_left -= 1;
            return Err(io::Error::from(io::ErrorKind::Interrupted));
        }
        if buf.is_empty() {
            return Ok(0);
        }
        let mut n = buf.len();
        if self.one_byte {
            n = 1;
        } else if !self.whole {
            let f: usize = kani::any();
            kani::assume(f >= 1 && f <= n);
            n = f;
        }
        let mut i = 0;
        while i < n {
            if self.len < CAP {
                self.got[self.len] = buf[i];
                self.len += 1;
            } else {
                self.overflow = true;
            }
            i += 1;
        }
        self.flushed_after_last_write = false;
        unsafe {
            LAST_WRITE_LEN = n;
            let mut j = 0;
            while j < n && j < 32 {
                LAST_WRITE[j] = buf[j];
                j += 1;
            }
        }
        ev_push(EV_WRITE, 0);
        Ok(n)
    }
    fn flush(&mut self) -> io::Result<()> {
        self.flushed_after_last_write = true;
        Ok(())
    }
}

// ------------------------------------------------------------------------------------------------
// serial port = reader + writer + settings that always succeed

pub struct SerPort<const ILEN: usize, const WCAP: usize> {
    pub r: SymReader<ILEN>,
    pub w: SymWriter<WCAP>,
    pub settings: PortSettings,
}

impl<const ILEN: usize, const WCAP: usize> SerPort<ILEN, WCAP> {
    pub fn new(tape: [u8; ILEN], read_fail_at: u32, write_fail_at: u32) -> Self {
        SerPort {
            r: SymReader::new(tape, 0, read_fail_at, true),
            w: SymWriter::new(0, write_fail_at, true),
            settings: PortSettings {
                baud_rate: serial_core::BaudRate::Baud110,
                char_size: serial_core::CharSize::Bits7,
                parity: serial_core::Parity::ParityEven,
                stop_bits: serial_core::StopBits::Stop2,
                flow_control: serial_core::FlowControl::FlowSoftware,
            },
        }
    }
}

impl<const ILEN: usize, const WCAP: usize> Read for SerPort<ILEN, WCAP> {
    fn read(&mut self, buf: &mut [u8]) -> io::Result<usize> {
        self.r.read(buf)
    }
}
impl<const ILEN: usize, const WCAP: usize> Write for SerPort<ILEN, WCAP> {
    fn write(&mut self, buf: &[u8]) -> io::Result<usize> {
        self.w.write(buf)
    }
    fn flush(&mut self) -> io::Result<()> {
        self.w.flush()
    }
}
impl<const ILEN: usize, const WCAP: usize> SerialDevice for SerPort<ILEN, WCAP> {
    type Settings = PortSettings;
    fn read_settings(&self) -> serial_core::Result<PortSettings> {
        Ok(self.settings)
    }
    fn write_settings(&mut self, s: &PortSettings) -> serial_core::Result<()> {
        self.settings = *s;
        Ok(())
    }
    fn timeout(&self) -> Duration {
        Duration::from_secs(0)
    }
    fn set_timeout(&mut self, _t: Duration) -> serial_core::Result<()> {
        Ok(())
    }
    fn set_rts(&mut self, _: bool) -> serial_core::Result<()> {
        Ok(())
    }
    fn set_dtr(&mut self, _: bool) -> serial_core::Result<()> {
        Ok(())
    }
    fn read_cts(&mut self) -> serial_core::Result<bool> {
        Ok(false)
    }
    fn read_dsr(&mut self) -> serial_core::Result<bool> {
        Ok(false)
    }
    fn read_ri(&mut self) -> serial_core::Result<bool> {
        Ok(false)
    }
    fn read_cd(&mut self) -> serial_core::Result<bool> {
        Ok(false)
    }
}
