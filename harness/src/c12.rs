//! C12 — a virtual sign never panics, whatever is sent on the bus.
//! Inductive: (base) `new` satisfies the invariant; (step) from ANY state satisfying it, ANY one
//! message is digested without a failing check and the invariant holds again.
use crate::util::*;
use crate::vsign::*;
use flipdot_core::{Address, Data, Message, Offset, PageFlipStyle, SignBus, State};
use flipdot_testing::{VirtualSign, VirtualSignBus};

#[kani::proof]
fn base_new() {
    let s = VirtualSign::new(Address(kani::any()), any_flip());
    assert!(inv_holds(&s), "C12: VirtualSign::new violates the representation invariant");
    kani::cover!(true, "reached");
}

fn covers(before: State, after: State) {
    kani::cover!(before != after, "state changed");
    kani::cover!(before == after, "state unchanged");
}

pub fn step_plain<const W: u32, const H: u32, const PGB: usize, const NP: usize, const PEND: usize>() {
    let own: u16 = kani::any();
    let mut s = any_inv_sign::<W, H, PGB, NP, PEND>(Address(own));
    let before = s.state();
    let m = any_plain_message();
    let _ = s.process_message(&m);
    assert!(inv_holds(&s), "C12: invariant broken by a message");
    covers(before, s.state());
}

pub fn step_data<const W: u32, const H: u32, const PGB: usize, const NP: usize, const PEND: usize, const L: usize>() {
    let own: u16 = kani::any();
    let mut s = any_inv_sign::<W, H, PGB, NP, PEND>(Address(own));
    let before = s.state();
    let d: [u8; L] = kani::any();
    let m = Message::SendData(Offset(kani::any()), Data::try_new(&d[..]).unwrap());
    let _ = s.process_message(&m);
    assert!(inv_holds(&s), "C12: invariant broken by a data chunk");
    let (_, chunks, _, _, _) = s.verif_parts();
    kani::cover!(chunks != 0, "chunk counted");
    kani::cover!(before == s.state(), "state unchanged");
}

macro_rules! plain {
    ($name:ident, $w:expr, $h:expr, $pgb:expr, $np:expr, $pend:expr) => {
        #[kani::proof]
        fn $name() {
            step_plain::<$w, $h, $pgb, $np, $pend>();
        }
    };
}
macro_rules! data {
    ($name:ident, $w:expr, $h:expr, $pgb:expr, $np:expr, $pend:expr, $l:expr) => {
        #[kani::proof]
        fn $name() {
            step_data::<$w, $h, $pgb, $np, $pend, $l>();
        }
    };
}

// shapes: s0 blank sizes; s1..s6 12x8 (one 16-byte chunk per page); s7,s8 30x7 (48-byte page); s9 wide Max3000
plain!(s0_plain, 0, 0, 0, 0, 0);
plain!(s1_plain, 12, 8, 16, 0, 0);
plain!(s2_plain, 12, 8, 16, 1, 0);
plain!(s3_plain, 12, 8, 16, 0, 16);
plain!(s4_plain, 12, 8, 16, 1, 16);
plain!(s5_plain, 12, 8, 16, 0, 15);
plain!(s6_plain, 12, 8, 16, 0, 17);
plain!(s7_plain, 30, 7, 48, 0, 32);
plain!(s8_plain, 30, 7, 48, 1, 48);
plain!(s9_plain, 300, 7, 304, 0, 0);
plain!(s10_plain, 0, 7, 0, 0, 16);
plain!(s11_plain, 12, 8, 16, 0, 1);
plain!(s12_plain, 12, 8, 16, 0, 32);

data!(s0_d0, 0, 0, 0, 0, 0, 0);
data!(s0_d1, 0, 0, 0, 0, 0, 1);
data!(s0_d15, 0, 0, 0, 0, 0, 15);
data!(s0_d16, 0, 0, 0, 0, 0, 16);
data!(s0_d17, 0, 0, 0, 0, 0, 17);
data!(s0_d255, 0, 0, 0, 0, 0, 255);
data!(s1_d0, 12, 8, 16, 0, 0, 0);
data!(s1_d16, 12, 8, 16, 0, 0, 16);
data!(s1_d17, 12, 8, 16, 0, 0, 17);
data!(s2_d16, 12, 8, 16, 1, 0, 16);
data!(s3_d0, 12, 8, 16, 0, 16, 0);
data!(s3_d1, 12, 8, 16, 0, 16, 1);
data!(s3_d16, 12, 8, 16, 0, 16, 16);
data!(s4_d16, 12, 8, 16, 1, 16, 16);
data!(s5_d1, 12, 8, 16, 0, 15, 1);
data!(s5_d16, 12, 8, 16, 0, 15, 16);
data!(s6_d16, 12, 8, 16, 0, 17, 16);
data!(s7_d16, 30, 7, 48, 0, 32, 16);
data!(s7_d15, 30, 7, 48, 0, 32, 15);
data!(s8_d16, 30, 7, 48, 1, 48, 16);
data!(s9_d16, 300, 7, 304, 0, 0, 16);
data!(s10_d16, 0, 7, 0, 0, 16, 16);

/// Bus of two signs (second one mid-transfer), one message of a concrete kind with symbolic
/// parameters: returns normally.  (A symbolic *kind* on a two-sign bus exhausts memory in CBMC.)
fn bus2<const K: u8>() {
    let a: u16 = kani::any();
    let b: u16 = kani::any();
    let s1 = any_inv_sign::<0, 0, 0, 0, 0>(Address(a));
    let s2 = any_inv_sign::<12, 8, 16, 0, 15>(Address(b));
    let mut bus = VirtualSignBus::new(vec![s1, s2]);
    let r = bus.process_message(any_message_of_kind::<K>());
    assert!(r.is_ok(), "C12: virtual bus returned an error");
    kani::cover!(r.as_ref().map(|o| o.is_none()).unwrap_or(false), "nobody replied");
    // drop glue of the bus is what exhausts CBMC's memory; nothing of interest happens in it
    std::mem::forget(r);
    std::mem::forget(bus);
}
macro_rules! bus2 {
    ($name:ident, $k:expr) => {
        #[kani::proof]
        fn $name() {
            bus2::<$k>();
        }
    };
}
bus2!(bus2_k0, 0);
bus2!(bus2_k1, 1);
bus2!(bus2_k2, 2);
bus2!(bus2_k3, 3);
bus2!(bus2_k4, 4);
bus2!(bus2_k5, 5);
bus2!(bus2_k6, 6);
bus2!(bus2_k7, 7);

#[kani::proof]
fn bus2_data16() {
    let a: u16 = kani::any();
    let b: u16 = kani::any();
    let s1 = any_inv_sign::<0, 0, 0, 0, 0>(Address(a));
    let s2 = any_inv_sign::<12, 8, 16, 0, 15>(Address(b));
    let mut bus = VirtualSignBus::new(vec![s1, s2]);
    let d: [u8; 16] = kani::any();
    let r = bus.process_message(Message::SendData(Offset(kani::any()), Data::try_new(&d[..]).unwrap()));
    assert!(r.is_ok(), "C12: virtual bus returned an error");
    kani::cover!(r.as_ref().map(|o| o.is_none()).unwrap_or(false), "nobody replied");
    // drop glue of the bus is what exhausts CBMC's memory; nothing of interest happens in it
    std::mem::forget(r);
    std::mem::forget(bus);
}

/// Bounded cross-check from `new()`: k symbolic messages; shows the invariant is not vacuous
/// (each interesting state is reached) and that nothing fails on real histories.
fn ksteps<const K: usize>() -> State {
    let own: u16 = kani::any();
    let mut s = VirtualSign::new(Address(own), any_flip());
    let mut i = 0;
    while i < K {
        let is_data: bool = kani::any();
        if is_data {
            let d: [u8; 16] = kani::any();
            let _ = s.process_message(&Message::SendData(Offset(kani::any()), Data::try_new(&d[..]).unwrap()));
        } else {
            let _ = s.process_message(&any_plain_message());
        }
        assert!(inv_holds(&s), "C12: invariant broken on a history from new()");
        i += 1;
    }
    let st = s.state();
    std::mem::forget(s);
    st
}
#[kani::proof]
fn ksteps3() {
    let st = ksteps::<3>();
    kani::cover!(st == State::ConfigReceived, "reached config received");
    kani::cover!(st == State::ConfigFailed, "reached config failed");
}
#[kani::proof]
fn ksteps5() {
    let st = ksteps::<5>();
    kani::cover!(st == State::ConfigReceived, "reached config received");
    kani::cover!(st == State::PixelsInProgress, "reached pixels in progress");
}
