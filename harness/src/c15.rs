//! C15 — reading a frame consumes exactly one line; writing delivers the whole frame.
//! Instantiations: Frame::read::<SymReader<LEN>>, Frame::write::<SymWriter<CAP>>.
//!
//! Reads: std's `read_until` forks at every byte whose value the symbolic executor cannot decide
//! to be / not to be a line feed, so the LINE is a literal; what is symbolic is everything after
//! the first line feed (the bytes that must stay in the stream), and the reader is adversarial in
//! a scheduled way (greedy: hands out as much as is requested; Interrupted at fixed calls; hard
//! failure at a fixed call).  Writes: frame fields and the sink's fragmentation are symbolic.
use crate::refmodel::*;
use crate::symio::*;
use crate::util::*;
use flipdot_core::{Address, Data, Frame, FrameError, MsgType};
use regex::contract::{set_mode, Mode};


/// One literal frame line followed by 3 symbolic bytes; greedy reader (hands out as many bytes
/// as are requested, so reading ahead is punished).  Back-to-back frames: every `Frame::read`
/// builds a fresh BufReader, so the only state carried from one read to the next is the stream
/// position; "the second frame is returned next" is this harness applied to the rest of the stream
/// (second instantiation below), given that the first read stops exactly after its line feed.
fn read_one<const K: usize, const LEN: usize>(line: &[u8; K], end: usize, addr: u16, ty: u8, ndata: usize) {
    let mut tape: [u8; LEN] = kani::any();
    let mut i = 0;
    while i < K {
        tape[i] = line[i];
        i += 1;
    }
    let mut rd = SymReader::<LEN>::new(tape, 0, u32::MAX, false);
    rd.greedy = true;
    set_mode(Mode::Contract(end));
    let f1 = Frame::read(&mut rd);
    assert!(rd.pos == K, "C15: reading a frame consumed more or less than the bytes up to and including the first line feed");
    assert!(rd.max_request <= 1, "C15: the reader was asked for more than one byte at a time (bytes beyond the line could be buffered and lost)");
    match &f1 {
        Ok(f) => assert!(f.address() == Address(addr) && f.message_type() == MsgType(ty) && f.data().len() == ndata, "C15: frame read differs from the one on the stream"),
        Err(_) => assert!(false, "C15: a valid frame line was not returned"),
    }
    kani::cover!(true, "frame read");
    std::mem::forget(f1);
}

#[kani::proof]
fn read_frame_hello() {
    read_one::<15, 18>(b":01007F02FF7F\r\n", 13, 0x7F, 2, 1);
}
#[kani::proof]
fn read_frame_second() {
    read_one::<13, 16>(b":0012340AB0\r\n", 11, 0x1234, 0x0A, 0);
}

/// A literal malformed line followed by symbolic bytes (which may contain line feeds).
fn read_garbage<const K: usize, const LEN: usize>(line: &[u8; K]) {
    let mut tape: [u8; LEN] = kani::any();
    let mut i = 0;
    while i < K {
        tape[i] = line[i];
        i += 1;
    }
    let mut rd = SymReader::<LEN>::new(tape, 0, u32::MAX, false);
    rd.greedy = true;
    set_mode(Mode::Reject);
    let r = Frame::read(&mut rd);
    assert!(rd.pos == K, "C15: reading a line consumed bytes beyond the first line feed (or stopped short)");
    match &r {
        Err(FrameError::InvalidFrame { data }) => assert!(bytes_eq(data, &line[..]), "C15: the decoded text is not exactly the line read"),
        _ => assert!(false, "C15: a malformed line did not surface as InvalidFrame"),
    }
    kani::cover!(true, "reached");
    std::mem::forget(r);
}
#[kani::proof]
fn read_garbage_empty_line() {
    read_garbage::<1, 5>(b"\n");
}
#[kani::proof]
fn read_garbage_short() {
    read_garbage::<6, 10>(b"hello\n");
}
#[kani::proof]
fn read_garbage_leading_bytes() {
    // a well-formed frame preceded by stray bytes on the same line is not a frame
    read_garbage::<14, 17>(b"x:00000000FF\r\n");
}
#[kani::proof]
fn read_garbage_bare_lf_frame() {
    // a frame terminated by a bare LF is not a frame
    read_garbage::<12, 15>(b":00000000FF\n");
}

/// A hard read error at call AT surfaces as FrameError::Io.
fn read_fail<const AT: u32>() {
    let mut tape = [0u8; 15];
    let l1 = b":01007F02FF7F\r\n";
    let mut i = 0;
    while i < 15 {
        tape[i] = l1[i];
        i += 1;
    }
    let mut rd = SymReader::<15>::new(tape, 0, AT, false);
    rd.greedy = true;
    set_mode(Mode::Contract(13));
    let r = Frame::read(&mut rd);
    assert!(matches!(r, Err(FrameError::Io { .. })), "C15: an I/O failure while reading did not surface as an I/O error");
    kani::cover!(true, "reached");
    std::mem::forget(r);
}
#[kani::proof]
fn read_hard_error_first() {
    read_fail::<0>();
}
#[kani::proof]
fn read_hard_error_mid() {
    read_fail::<7>();
}
#[kani::proof]
fn read_hard_error_last() {
    read_fail::<14>();
}

/// Writing: the sink accepts 1..=n bytes per call (symbolic); delivered bytes are exactly the
/// encoding + CRLF, once, in order.  Frame fields symbolic.
fn write_fragmented<const N: usize, const TL: usize, const CAP: usize>(mask: u64) {
    assert!(TL == 11 + 2 * N && CAP == TL + 4);
    let d: [u8; N] = kani::any();
    let addr: u16 = kani::any();
    let ty: u8 = kani::any();
    let f = Frame::new(Address(addr), MsgType(ty), Data::try_new(&d[..]).unwrap());
    let mut want = [0u8; TL];
    ref_encode(addr, ty, &d, &mut want);
    let mut w = SymWriter::<CAP>::new(0, u32::MAX, false);
    w.intr_mask = mask;
    w.one_byte = mask != 0; // with interruptions: one byte per call; without: symbolic fragmentation
    let r = f.write(&mut w);
    assert!(r.is_ok(), "C15: writing to a slow sink failed");
    assert!(!w.overflow && w.len == TL + 2, "C15: the sink did not receive exactly the encoding plus CRLF");
    let mut i = 0;
    while i < TL {
        assert!(w.got[i] == want[i], "C15: delivered bytes differ from the frame's encoding");
        i += 1;
    }
    assert!(w.got[TL] == b'\r' && w.got[TL + 1] == b'\n', "C15: CRLF missing");
    kani::cover!(w.calls > 3, "delivered in several pieces");
    std::mem::forget(r);
    std::mem::forget(f);
}
#[kani::proof]
fn write_fragmented_n1() {
    write_fragmented::<1, 13, 17>(0);
}
/// Same check against a sink that takes exactly one byte per call (deterministic, cheap).
#[kani::proof]
fn write_bytewise_n1() {
    write_fragmented::<1, 13, 17>(1 << 63);
}
#[kani::proof]
fn write_bytewise_n3() {
    write_fragmented::<3, 17, 21>(1 << 63);
}

/// A hard write error at call AT surfaces as FrameError::Io (never Ok); one byte accepted per call before.
fn write_fail<const AT: u32>() {
    let d: [u8; 1] = kani::any();
    let f = Frame::new(Address(kani::any()), MsgType(kani::any()), Data::try_new(&d[..]).unwrap());
    let mut w = SymWriter::<20>::new(0, AT, false);
    w.one_byte = true;
    let r = f.write(&mut w);
    assert!(w.calls > AT, "harness: the failing call was never reached");
    assert!(matches!(r, Err(FrameError::Io { .. })), "C15: an I/O failure while writing did not surface as an I/O error");
    kani::cover!(true, "reached");
    std::mem::forget(r);
    std::mem::forget(f);
}
#[kani::proof]
fn write_hard_error_first() {
    write_fail::<0>();
}
#[kani::proof]
fn write_hard_error_second() {
    write_fail::<1>();
}
