//! Helpers shared by the harnesses: symbolic constructors for the repository's own types.
use flipdot_core::{Address, ChunkCount, Data, Frame, Message, MsgType, Offset, Operation, State};

pub const STATES: [State; 13] = [
    State::Unconfigured,
    State::ConfigInProgress,
    State::ConfigReceived,
    State::ConfigFailed,
    State::PixelsInProgress,
    State::PixelsReceived,
    State::PixelsFailed,
    State::PageLoaded,
    State::PageLoadInProgress,
    State::PageShown,
    State::PageShowInProgress,
    State::ShowingPages,
    State::ReadyToReset,
];

pub const OPS: [Operation; 6] = [
    Operation::ReceiveConfig,
    Operation::ReceivePixels,
    Operation::ShowLoadedPage,
    Operation::LoadNextPage,
    Operation::StartReset,
    Operation::FinishReset,
];

pub fn any_state() -> State {
    let i: usize = kani::any();
    kani::assume(i < 13);
    STATES[i]
}

pub fn any_op() -> Operation {
    let i: usize = kani::any();
    kani::assume(i < 6);
    OPS[i]
}

pub fn state_index(s: State) -> u8 {
    match s {
        State::Unconfigured => 0,
        State::ConfigInProgress => 1,
        State::ConfigReceived => 2,
        State::ConfigFailed => 3,
        State::PixelsInProgress => 4,
        State::PixelsReceived => 5,
        State::PixelsFailed => 6,
        State::PageLoaded => 7,
        State::PageLoadInProgress => 8,
        State::PageShown => 9,
        State::PageShowInProgress => 10,
        State::ShowingPages => 11,
        State::ReadyToReset => 12,
        _ => 255,
    }
}

pub fn op_index(o: Operation) -> u8 {
    match o {
        Operation::ReceiveConfig => 0,
        Operation::ReceivePixels => 1,
        Operation::ShowLoadedPage => 2,
        Operation::LoadNextPage => 3,
        Operation::StartReset => 4,
        Operation::FinishReset => 5,
        _ => 255,
    }
}

/// Any message that carries no heap data (every kind except SendData / Unknown).
pub fn any_plain_message() -> Message<'static> {
    let k: u8 = kani::any();
    kani::assume(k < 8);
    let a = Address(kani::any());
    match k {
        0 => Message::DataChunksSent(ChunkCount(kani::any())),
        1 => Message::Hello(a),
        2 => Message::QueryState(a),
        3 => Message::ReportState(a, any_state()),
        4 => Message::RequestOperation(a, any_op()),
        5 => Message::AckOperation(a, any_op()),
        6 => Message::PixelsComplete(a),
        _ => Message::Goodbye(a),
    }
}

/// A message of one concrete kind K (0..8) with symbolic parameters.
pub fn any_message_of_kind<const K: u8>() -> Message<'static> {
    let a = Address(kani::any());
    match K {
        0 => Message::DataChunksSent(ChunkCount(kani::any())),
        1 => Message::Hello(a),
        2 => Message::QueryState(a),
        3 => Message::ReportState(a, any_state()),
        4 => Message::RequestOperation(a, any_op()),
        5 => Message::AckOperation(a, any_op()),
        6 => Message::PixelsComplete(a),
        7 => Message::Goodbye(a),
        // 8, 9: a report / an acknowledgement with CONCRETE state / operation (see below)
        8 => Message::ReportState(a, State::PageLoaded),
        9 => Message::AckOperation(a, Operation::StartReset),
        // 10..=15: an operation request with a CONCRETE operation (a symbolic operation makes the
        // frame's data pointer symbolic, which the encoder harnesses cannot afford)
        10 => Message::RequestOperation(a, Operation::ReceiveConfig),
        11 => Message::RequestOperation(a, Operation::ReceivePixels),
        12 => Message::RequestOperation(a, Operation::ShowLoadedPage),
        13 => Message::RequestOperation(a, Operation::LoadNextPage),
        14 => Message::RequestOperation(a, Operation::StartReset),
        _ => Message::RequestOperation(a, Operation::FinishReset),
    }
}

/// Marks a point that must be unreachable (used after calls that are required to panic).
macro_rules! must_not_return {
    ($what:expr) => {
        assert!(false, concat!("VERIF_MUST_NOT_RETURN: ", $what));
    };
}

use crate::refmodel::Kind;

/// Classify a real `Message` into the reference `Kind` (by variant and enum index only).
pub fn kind_of(m: &Message<'_>) -> Kind {
    match *m {
        Message::SendData(_, _) => Kind::SendData,
        Message::DataChunksSent(_) => Kind::DataChunksSent,
        Message::Hello(_) => Kind::Hello,
        Message::QueryState(_) => Kind::QueryState,
        Message::Goodbye(_) => Kind::Goodbye,
        Message::ReportState(_, s) => Kind::ReportState(state_index(s)),
        Message::RequestOperation(_, o) => Kind::RequestOperation(op_index(o)),
        Message::AckOperation(_, o) => Kind::AckOperation(op_index(o)),
        Message::PixelsComplete(_) => Kind::PixelsComplete,
        Message::Unknown(_) => Kind::Unknown,
        _ => Kind::Unknown,
    }
}

/// The 16-bit field a message carries in the frame's address position.
pub fn addr_field(m: &Message<'_>) -> Option<u16> {
    match *m {
        Message::SendData(Offset(o), _) => Some(o),
        Message::DataChunksSent(ChunkCount(c)) => Some(c),
        Message::Hello(Address(a))
        | Message::QueryState(Address(a))
        | Message::Goodbye(Address(a))
        | Message::ReportState(Address(a), _)
        | Message::RequestOperation(Address(a), _)
        | Message::AckOperation(Address(a), _)
        | Message::PixelsComplete(Address(a)) => Some(a),
        _ => None,
    }
}

/// Element-wise comparison (avoids the opaque memcmp loop for small slices).
pub fn bytes_eq(a: &[u8], b: &[u8]) -> bool {
    if a.len() != b.len() {
        return false;
    }
    let mut i = 0;
    while i < a.len() {
        if a[i] != b[i] {
            return false;
        }
        i += 1;
    }
    true
}
