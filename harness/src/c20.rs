//! C20 — port setup always yields 19200 8N1 without flow control and a read timeout, or an error.
use crate::symport::*;
use flipdot_core::{Message, SignBus};
use flipdot_serial::SerialSignBus;
use flipdot_testing::Odk;
use std::time::Duration;

struct NullBus;
impl SignBus for NullBus {
    fn process_message<'a>(&mut self, _m: Message<'_>) -> Result<Option<Message<'a>>, Box<dyn std::error::Error + Send + Sync>> {
        Ok(None)
    }
}

fn check_port(p: &CfgPort, ok: bool, fail_op: u8, want_timeout: Duration) {
    if ok {
        assert!(fail_op == 0, "C20: setup succeeded although the port refused an operation");
        assert!(p.written_settings && is_19200_8n1(&p.settings), "C20: port is not at 19200 8N1 without flow control after successful setup");
        assert!(p.timeout == Some(want_timeout), "C20: the read timeout was not applied");
    } else {
        assert!(fail_op != 0, "C20: setup failed although the port accepted everything");
    }
}

#[kani::proof]
fn configure_port_direct() {
    let mut p = CfgPort::any();
    let fail_op = p.fail_op;
    let secs: u64 = kani::any();
    let nanos: u32 = kani::any();
    kani::assume(nanos < 1_000_000_000);
    let t = Duration::new(secs, nanos);
    let r = flipdot_serial::configure_port(&mut p, t);
    check_port(&p, r.is_ok(), fail_op, t);
    kani::cover!(r.is_ok(), "configured");
    kani::cover!(r.is_err() && fail_op == 1, "read_settings refused");
    kani::cover!(r.is_err() && fail_op == 2, "write_settings refused");
    kani::cover!(r.is_err() && fail_op == 3, "set_timeout refused");
    std::mem::forget(r);
}

#[kani::proof]
fn serial_sign_bus_try_new() {
    let p = CfgPort::any();
    let fail_op = p.fail_op;
    let r = SerialSignBus::try_new(p);
    match &r {
        Ok(bus) => check_port(bus.port(), true, fail_op, Duration::from_secs(5)),
        Err(_) => assert!(fail_op != 0, "C20: SerialSignBus::try_new failed although the port accepted everything"),
    }
    kani::cover!(r.is_ok(), "constructed");
    kani::cover!(r.is_err() && fail_op == 2, "settings refused");
    kani::cover!(r.is_err() && fail_op == 3, "timeout refused");
    std::mem::forget(r);
}

#[kani::proof]
fn odk_try_new() {
    let p = CfgPort::any();
    let fail_op = p.fail_op;
    let r = Odk::try_new(p, NullBus);
    // Odk has no port accessor: success with an injected failure is the observable violation;
    // the settings it applies are those of configure_port (checked directly above).
    assert!(r.is_ok() == (fail_op == 0), "C20: Odk::try_new result does not reflect the port's refusal");
    kani::cover!(r.is_ok(), "constructed");
    kani::cover!(r.is_err() && fail_op == 3, "timeout refused");
    std::mem::forget(r);
}
